/-
C20 — The lock serialises closures: no lost updates under contention.

The model is `Essential/Model/Lock.lean`; `apply` performs the steps listed in the generated
`LockGen.applyShape`.  All theorems below are about `init LockGen.applyShape sys`, for every
system `sys` (any number of locks and threads, scripts of any length) and every schedule.

Trusted, not proved: `std::sync::Mutex` (acquire blocks unless free, release frees), and that a
guard temporary in a call argument lives until the call returned (Rust drop order); the
translator `gen/lock_from_rust.py` (shape extraction).  Closures in the model cannot call
`apply`, i.e. the non-re-entrant use of the lock which `no_deadlock` is stated for.
-/
import Essential.Model.Lock

namespace Essential.C20
open Essential Essential.Lock Essential.LockGen

/-! ### the tie to the source -/

/-- **`apply` is: take the lock, call the closure on the guarded value, drop the guard** -/
theorem shape_is_lock_call_unlock : LockGen.applyShape = [.acquire, .call, .release] := by decide

theorem uses_std_mutex : LockGen.usesStdMutex = true := by decide

/-- the shape the proofs are carried out for -/
abbrev good : List Step := [.acquire, .call, .release]

theorem compile_cons (c : Closure) (rest : List Closure) :
    compile good (c :: rest) =
      .acquire c.lock :: .read c.lock :: .write c.lock c.f :: .release c.lock :: compile good rest := by
  simp [compile, expand, expandStep]

theorem compile_eq_nil {todo : List Closure} (h : compile good todo = []) : todo = [] := by
  cases todo with
  | nil => rfl
  | cons c r => rw [compile_cons] at h; cases h

@[simp] theorem upd_same {α : Type} (f : Nat → α) (i : Nat) (a : α) : upd f i a i = a := by simp [upd]
@[simp] theorem upd_other {α : Type} (f : Nat → α) {i j : Nat} (a : α) (h : j ≠ i) : upd f i a j = f j := by
  simp [upd, h]

/-! ### the invariant -/

/-- thread `t` holds lock `l` and no other lock -/
def Owns (s : State) (t l : Nat) : Prop := s.owner l = some t ∧ ∀ l', s.owner l' = some t → l' = l

/-- Where thread `t` is, relative to the serial execution `S` of all closures in acquisition order.
`S` has already run the closure `t` is working on (if any): until `t` has written, `S` is ahead of
the concurrent state by exactly that closure. -/
inductive ThreadOk (s : State) (S : SState) (t : Nat) : Prop
  | idle (hp : (s.thr t).prog = compile good (S.todo t)) (ho : ∀ l, s.owner l ≠ some t)
      (hr : S.rets t = (s.thr t).rets)
  | acquired (c : Closure)
      (hp : (s.thr t).prog = .read c.lock :: .write c.lock c.f :: .release c.lock :: compile good (S.todo t))
      (ho : Owns s t c.lock) (hv : S.vals c.lock = c.f.app (s.vals c.lock))
      (hr : S.rets t = (s.thr t).rets ++ [s.vals c.lock])
  | readDone (c : Closure)
      (hp : (s.thr t).prog = .write c.lock c.f :: .release c.lock :: compile good (S.todo t))
      (ho : Owns s t c.lock) (hreg : (s.thr t).reg = s.vals c.lock)
      (hv : S.vals c.lock = c.f.app (s.vals c.lock)) (hr : S.rets t = (s.thr t).rets ++ [s.vals c.lock])
  | written (l : Nat) (hp : (s.thr t).prog = .release l :: compile good (S.todo t))
      (ho : Owns s t l) (hv : S.vals l = s.vals l) (hr : S.rets t = (s.thr t).rets)

structure Inv (sys : Sys) (s : State) : Prop where
  thr : ∀ t, ThreadOk s (serial (sinit sys) s.acqs) t
  free : ∀ l, s.owner l = none → (serial (sinit sys) s.acqs).vals l = s.vals l

theorem inv_init (sys : Sys) : Inv sys (init good sys) where
  thr t := .idle rfl (by intro l h; cases h) rfl
  free _ _ := rfl

/-- a step that touches only lock `l0`, which `t` neither held before nor holds after, and that
leaves `t`'s own thread state alone, preserves `t`'s part of the invariant -/
theorem ThreadOk.frame {s s' : State} {S S' : SState} {t : Nat} (h : ThreadOk s S t) (l0 : Nat)
    (hthr : s'.thr t = s.thr t) (htodo : S'.todo t = S.todo t) (hrets : S'.rets t = S.rets t)
    (hown : ∀ l, l ≠ l0 → s'.owner l = s.owner l) (hvals : ∀ l, l ≠ l0 → s'.vals l = s.vals l)
    (hSv : ∀ l, l ≠ l0 → S'.vals l = S.vals l)
    (h0 : s.owner l0 ≠ some t) (h0' : s'.owner l0 ≠ some t) : ThreadOk s' S' t := by
  have owns : ∀ l, Owns s t l → Owns s' t l ∧ l ≠ l0 := by
    intro l ⟨h1, h2⟩
    have hne : l ≠ l0 := by intro e; subst e; exact h0 h1
    refine ⟨⟨by rw [hown l hne]; exact h1, ?_⟩, hne⟩
    intro l' hl'
    have : l' ≠ l0 := by intro e; subst e; exact h0' hl'
    rw [hown l' this] at hl'; exact h2 l' hl'
  cases h with
  | idle hp ho hr =>
    refine .idle (by rw [hthr, htodo]; exact hp) ?_ (by rw [hthr, hrets]; exact hr)
    intro l hl
    by_cases e : l = l0
    · subst e; exact h0' hl
    · rw [hown l e] at hl; exact ho l hl
  | acquired c hp ho hv hr =>
    obtain ⟨ho', hne⟩ := owns _ ho
    exact .acquired c (by rw [hthr, htodo]; exact hp) ho' (by rw [hSv _ hne, hvals _ hne]; exact hv)
      (by rw [hthr, hrets, hvals _ hne]; exact hr)
  | readDone c hp ho hreg hv hr =>
    obtain ⟨ho', hne⟩ := owns _ ho
    exact .readDone c (by rw [hthr, htodo]; exact hp) ho' (by rw [hthr, hvals _ hne]; exact hreg)
      (by rw [hSv _ hne, hvals _ hne]; exact hv) (by rw [hthr, hrets, hvals _ hne]; exact hr)
  | written l hp ho hv hr =>
    obtain ⟨ho', hne⟩ := owns _ ho
    exact .written l (by rw [hthr, htodo]; exact hp) ho' (by rw [hSv _ hne, hvals _ hne]; exact hv)
      (by rw [hthr, hrets]; exact hr)

/-- the holder of a lock is in one of the three holding phases, for that lock -/
theorem ThreadOk.of_owner {s : State} {S : SState} {t l : Nat} (h : ThreadOk s S t) (ho : s.owner l = some t) :
    ∃ rest, (s.thr t).prog = .read l :: rest ∨ (∃ f, (s.thr t).prog = .write l f :: rest) ∨
      (s.thr t).prog = .release l :: rest := by
  cases h with
  | idle hp ho' hr => exact absurd ho (ho' l)
  | acquired c hp ho' hv hr => have := ho'.2 l ho; subst this; exact ⟨_, .inl hp⟩
  | readDone c hp ho' hreg hv hr => have := ho'.2 l ho; subst this; exact ⟨_, .inr (.inl ⟨_, hp⟩)⟩
  | written l' hp ho' hv hr => have := ho'.2 l ho; subst this; exact ⟨_, .inr (.inr hp)⟩

theorem serial_snoc (S : SState) (order : List Nat) (t : Nat) :
    serial S (order ++ [t]) = sstep (serial S order) t := by
  simp [serial, List.foldl_append]

/-- **every micro-step preserves the invariant** -/
theorem inv_step {sys : Sys} {s s' : State} {t0 : Nat} (hI : Inv sys s) (h : step s t0 = some s') :
    Inv sys s' := by
  obtain ⟨hthr, hfree⟩ := hI
  have hT := hthr t0
  unfold step at h
  split at h
  · cases h
  · -- acquire
    rename_i l rest hprog
    split at h
    · cases h
    · rename_i hnone
      cases h
      cases hT with
      | idle hp ho hr =>
        rw [hprog] at hp
        cases htodo : (serial (sinit sys) s.acqs).todo t0 with
        | nil => rw [htodo] at hp; cases hp
        | cons c todo' =>
          rw [htodo, compile_cons] at hp
          injection hp with h1 h2
          injection h1 with h1
          subst h1
          have hS : serial (sinit sys) (s.acqs ++ [t0]) =
              { vals := upd (serial (sinit sys) s.acqs).vals c.lock (c.f.app ((serial (sinit sys) s.acqs).vals c.lock)),
                todo := upd (serial (sinit sys) s.acqs).todo t0 todo',
                rets := upd (serial (sinit sys) s.acqs).rets t0
                  ((serial (sinit sys) s.acqs).rets t0 ++ [(serial (sinit sys) s.acqs).vals c.lock]) } := by
            rw [serial_snoc]; unfold sstep; rw [htodo]
          constructor
          · intro t
            by_cases ht : t = t0
            · subst ht
              refine .acquired c ?_ ⟨?_, ?_⟩ ?_ ?_
              · simp [hS, h2]
              · simp
              · intro l' hl'
                by_cases e : l' = c.lock
                · exact e
                · simp [upd_other _ _ e] at hl'; exact absurd hl' (ho l')
              · simp [hS, hfree _ hnone]
              · simp [hS, hfree _ hnone, hr]
            · refine (hthr t).frame c.lock ?_ ?_ ?_ ?_ ?_ ?_ ?_ ?_
              · simp [upd_other _ _ ht]
              · simp [hS, upd_other _ _ ht]
              · simp [hS, upd_other _ _ ht]
              · intro l' hl'; simp [upd_other _ _ hl']
              · intro l' hl'; rfl
              · intro l' hl'; simp [hS, upd_other _ _ hl']
              · rw [hnone]; intro e; cases e
              · simp; intro e; exact ht e.symm
          · intro l' hl'
            by_cases e : l' = c.lock
            · subst e; simp at hl'
            · simp [upd_other _ _ e] at hl'
              simp [hS, upd_other _ _ e, hfree _ hl']
      | acquired c hp ho hv hr => rw [hprog] at hp; cases hp
      | readDone c hp ho hreg hv hr => rw [hprog] at hp; cases hp
      | written l' hp ho hv hr => rw [hprog] at hp; cases hp
  · -- read
    rename_i l rest hprog
    cases h
    cases hT with
    | idle hp ho hr =>
      rw [hprog] at hp
      cases htodo : (serial (sinit sys) s.acqs).todo t0 with
      | nil => rw [htodo] at hp; cases hp
      | cons c todo' => rw [htodo, compile_cons] at hp; cases hp
    | acquired c hp ho hv hr =>
      rw [hprog] at hp
      injection hp with h1 h2
      injection h1 with h1
      subst h1
      constructor
      · intro t
        by_cases ht : t = t0
        · subst ht
          exact .readDone c (by simp [h2]) ho (by simp) hv (by simpa using hr)
        · exact (hthr t).frame c.lock (by simp [upd_other _ _ ht]) rfl rfl (fun _ _ => rfl) (fun _ _ => rfl)
            (fun _ _ => rfl) (by rw [ho.1]; intro e; injection e with e; exact ht e.symm)
            (by show s.owner c.lock ≠ some t; rw [ho.1]; intro e; injection e with e; exact ht e.symm)
      · exact hfree
    | readDone c hp ho hreg hv hr => rw [hprog] at hp; cases hp
    | written l' hp ho hv hr => rw [hprog] at hp; cases hp
  · -- write
    rename_i l f rest hprog
    cases h
    cases hT with
    | idle hp ho hr =>
      rw [hprog] at hp
      cases htodo : (serial (sinit sys) s.acqs).todo t0 with
      | nil => rw [htodo] at hp; cases hp
      | cons c todo' => rw [htodo, compile_cons] at hp; cases hp
    | acquired c hp ho hv hr => rw [hprog] at hp; cases hp
    | readDone c hp ho hreg hv hr =>
      rw [hprog] at hp
      injection hp with h1 h2
      injection h1 with h1 h1'
      subst h1 h1'
      constructor
      · intro t
        by_cases ht : t = t0
        · subst ht
          refine .written c.lock (by simp [h2]) ho ?_ ?_
          · simp [hv, hreg]
          · simp [hr, hreg]
        · refine (hthr t).frame c.lock (by simp [upd_other _ _ ht]) rfl rfl (fun _ _ => rfl) ?_
            (fun _ _ => rfl) (by rw [ho.1]; intro e; injection e with e; exact ht e.symm)
            (by show s.owner c.lock ≠ some t; rw [ho.1]; intro e; injection e with e; exact ht e.symm)
          intro l' hl'; simp [upd_other _ _ hl']
      · intro l' hl'
        have e : l' ≠ c.lock := by intro e; subst e; rw [ho.1] at hl'; cases hl'
        simp [upd_other _ _ e, hfree _ hl']
    | written l' hp ho hv hr => rw [hprog] at hp; cases hp
  · -- release
    rename_i l rest hprog
    split at h
    · rename_i hown
      cases h
      cases hT with
      | idle hp ho hr => exact absurd hown (ho l)
      | acquired c hp ho hv hr => rw [hprog] at hp; cases hp
      | readDone c hp ho hreg hv hr => rw [hprog] at hp; cases hp
      | written l' hp ho hv hr =>
        rw [hprog] at hp
        injection hp with h1 h2
        injection h1 with h1
        subst h1
        constructor
        · intro t
          by_cases ht : t = t0
          · subst ht
            refine .idle (by simp [h2]) ?_ (by simpa using hr)
            intro l' hl'
            by_cases e : l' = l
            · subst e; simp at hl'
            · simp [upd_other _ _ e] at hl'; exact e (ho.2 l' hl')
          · refine (hthr t).frame l (by simp [upd_other _ _ ht]) rfl rfl ?_ (fun _ _ => rfl)
              (fun _ _ => rfl) (by rw [hown]; intro e; injection e with e; exact ht e.symm) (by simp)
            intro l' hl'; simp [upd_other _ _ hl']
        · intro l' hl'
          by_cases e : l' = l
          · subst e; exact hv
          · simp [upd_other _ _ e] at hl'; exact hfree _ hl'
    · cases h

theorem inv_exec {sys : Sys} {s : State} (t : Nat) (hI : Inv sys s) : Inv sys (exec s t) := by
  unfold exec
  cases h : step s t with
  | none => exact hI
  | some s' => exact inv_step hI h

theorem inv_run {sys : Sys} (sched : List Nat) : ∀ {s : State}, Inv sys s → Inv sys (run s sched) := by
  induction sched with
  | nil => intro s h; exact h
  | cons t r ih => intro s h; exact ih (inv_exec t h)

/-- the invariant holds in every reachable state -/
theorem inv_reachable (sys : Sys) (sched : List Nat) : Inv sys (run (init good sys) sched) :=
  inv_run sched (inv_init sys)

/-! ### mutual exclusion -/

/-- a thread inside a call on lock `l` holds `l` -/
theorem inCall_owner {s : State} {S : SState} {t l : Nat} (h : ThreadOk s S t) (hc : inCall s t l = true) :
    s.owner l = some t := by
  unfold inCall at hc
  cases h with
  | idle hp ho hr =>
    rw [hp] at hc
    cases htodo : S.todo t with
    | nil => rw [htodo] at hc; simp [compile] at hc
    | cons c r => rw [htodo, compile_cons] at hc; simp at hc
  | acquired c hp ho hv hr => rw [hp] at hc; simp at hc; subst hc; exact ho.1
  | readDone c hp ho hreg hv hr => rw [hp] at hc; simp at hc; subst hc; exact ho.1
  | written l' hp ho hv hr => rw [hp] at hc; simp at hc

/-- **in every reachable state, a thread that is inside a call on a lock holds that lock** -/
theorem in_call_holds_lock (sys : Sys) (sched : List Nat) (t l : Nat) :
    let s := run (init LockGen.applyShape sys) sched
    inCall s t l = true → s.owner l = some t := by
  rw [shape_is_lock_call_unlock]
  intro s hc
  exact inCall_owner ((inv_reachable sys sched).thr t) hc

/-- **mutual exclusion: in every reachable state at most one thread is inside a call per lock**
(any system, any schedule) -/
theorem mutual_exclusion (sys : Sys) (sched : List Nat) (t1 t2 l : Nat) :
    let s := run (init LockGen.applyShape sys) sched
    inCall s t1 l = true → inCall s t2 l = true → t1 = t2 := by
  rw [shape_is_lock_call_unlock]
  intro s h1 h2
  have o1 := inCall_owner ((inv_reachable sys sched).thr t1) h1
  have o2 := inCall_owner ((inv_reachable sys sched).thr t2) h2
  rw [o1] at o2
  injection o2

/-! ### serialisability -/

theorem step_thr_other {s s' : State} {t t' : Nat} (h : step s t' = some s') (hne : t ≠ t') :
    s'.thr t = s.thr t := by
  unfold step at h
  split at h
  · cases h
  · split at h
    · cases h
    · cases h; simp [upd_other _ _ hne]
  · cases h; simp [upd_other _ _ hne]
  · cases h; simp [upd_other _ _ hne]
  · split at h
    · cases h; simp [upd_other _ _ hne]
    · cases h

theorem step_nil {s : State} {t : Nat} (h : (s.thr t).prog = []) : step s t = none := by
  unfold step; rw [h]

theorem exec_prog_nil {s : State} {t : Nat} (t' : Nat) (h : (s.thr t).prog = []) :
    ((exec s t').thr t).prog = [] := by
  unfold exec
  cases hs : step s t' with
  | none => exact h
  | some s' =>
    by_cases e : t = t'
    · subst e; rw [step_nil h] at hs; cases hs
    · simp [step_thr_other hs e, h]

theorem run_prog_nil (sched : List Nat) : ∀ {s : State} {t : Nat}, (s.thr t).prog = [] →
    ((run s sched).thr t).prog = [] := by
  induction sched with
  | nil => intro s t h; exact h
  | cons t' r ih => intro s t h; exact ih (exec_prog_nil t' h)

/-- threads that do not exist never have anything to do -/
theorem absent_thread (sys : Sys) (sched : List Nat) (t : Nat) (ht : sys.scripts.length ≤ t) :
    ((run (init good sys) sched).thr t).prog = [] := by
  apply run_prog_nil
  simp [init, List.getD, List.getElem?_eq_none ht, compile]

theorem finished_all {sys : Sys} {sched : List Nat}
    (hF : Finished sys.scripts.length (run (init good sys) sched)) (t : Nat) :
    ((run (init good sys) sched).thr t).prog = [] := by
  by_cases h : t < sys.scripts.length
  · exact hF t h
  · exact absent_thread sys sched t (Nat.le_of_not_lt h)

/-- in a state in which no thread has anything left to do, every lock is free -/
theorem free_of_finished {s : State} {S : SState} (hthr : ∀ t, ThreadOk s S t)
    (hdone : ∀ t, (s.thr t).prog = []) (l : Nat) : s.owner l = none := by
  cases ho : s.owner l with
  | none => rfl
  | some t =>
    obtain ⟨rest, h | ⟨f, h⟩ | h⟩ := (hthr t).of_owner ho <;> (rw [hdone t] at h; cases h)

/-- **Serialisability.**  For every system and every schedule that runs all scripts to completion:
the final value of every lock and every value returned to every thread are those of the *serial*
execution that runs the closures atomically, one at a time, in the order in which the threads
acquired the lock(s) (`s.acqs`); that serial execution runs every closure of every script, and
all locks are free at the end. -/
theorem serialisable (sys : Sys) (sched : List Nat) :
    let s := run (init LockGen.applyShape sys) sched
    let S := serial (sinit sys) s.acqs
    Finished sys.scripts.length s →
      (∀ l, s.vals l = S.vals l) ∧ (∀ t, (s.thr t).rets = S.rets t) ∧ (∀ t, S.todo t = []) ∧
      (∀ l, s.owner l = none) := by
  rw [shape_is_lock_call_unlock]
  intro s S hF
  have hI := inv_reachable sys sched
  have hdone := finished_all hF
  have hfree := free_of_finished hI.thr hdone
  have hidle : ∀ t, S.rets t = (s.thr t).rets ∧ S.todo t = [] := by
    intro t
    cases hI.thr t with
    | idle hp ho hr =>
      refine ⟨hr, compile_eq_nil ?_⟩
      rw [← hp]; exact hdone t
    | acquired c hp ho hv hr => rw [hdone t] at hp; cases hp
    | readDone c hp ho hreg hv hr => rw [hdone t] at hp; cases hp
    | written l' hp ho hv hr => rw [hdone t] at hp; cases hp
  exact ⟨fun l => (hI.free l (hfree l)).symm, fun t => (hidle t).1.symm, fun t => (hidle t).2, hfree⟩

/-- the same, in the finite view compared by the driver (`lockcheck`): the observed outcome of a
completed run is the outcome of the serial execution in acquisition order -/
theorem serialisable_outcome (sys : Sys) (sched : List Nat) :
    let s := run (init LockGen.applyShape sys) sched
    Finished sys.scripts.length s → serialOutcome sys s.acqs = some (outcome sys s) := by
  intro s hF
  obtain ⟨hv, hr, ht, _⟩ := serialisable sys sched hF
  unfold serialOutcome outcome
  rw [if_pos]
  · congr 2
    · apply List.map_congr_left; intro t _; exact (hr t).symm
    · apply List.map_congr_left; intro l _; exact (hv l).symm
  · simp only [List.all_eq_true]
    intro t _
    rw [ht t]; rfl

/-- **each closure sees the effects of all closures completed before it**: whenever a lock is free,
its value is the one left by the serial execution of *all* closures that ever acquired a lock;
in particular the next thread to acquire it reads exactly that value … -/
theorem free_lock_has_serial_value (sys : Sys) (sched : List Nat) (l : Nat) :
    let s := run (init LockGen.applyShape sys) sched
    s.owner l = none → s.vals l = (serial (sinit sys) s.acqs).vals l := by
  rw [shape_is_lock_call_unlock]
  intro s h
  exact ((inv_reachable sys sched).free l h).symm

theorem ThreadOk.reg_of_write {s : State} {S : SState} {t l : Nat} {f : Rmw} {rest : List Micro}
    (h : ThreadOk s S t) (hprog : (s.thr t).prog = .write l f :: rest) : (s.thr t).reg = s.vals l := by
  cases h with
  | idle hp ho hr =>
    rw [hprog] at hp
    cases htodo : S.todo t with
    | nil => rw [htodo] at hp; cases hp
    | cons c r => rw [htodo, compile_cons] at hp; cases hp
  | acquired c hp ho hv hr => rw [hprog] at hp; cases hp
  | readDone c hp ho hreg hv hr =>
    rw [hprog] at hp; injection hp with h1 _; injection h1 with h1 _; subst h1; exact hreg
  | written l' hp ho hv hr => rw [hprog] at hp; cases hp

/-- … and nobody changes it between the acquisition and the closure's own write: the value the
closure has read (and is going to return) is still the value of the lock -/
theorem read_value_is_current (sys : Sys) (sched : List Nat) (t l : Nat) (f : Rmw) (rest : List Micro) :
    let s := run (init LockGen.applyShape sys) sched
    (s.thr t).prog = .write l f :: rest → (s.thr t).reg = s.vals l := by
  rw [shape_is_lock_call_unlock]
  intro s hprog
  exact ((inv_reachable sys sched).thr t).reg_of_write hprog

/-! ### no deadlock -/

/-- **No deadlock.**  In every reachable state in which some thread has not finished its script,
some thread can make a step.  (Closures of the model cannot call `apply`: this is the statement
for non-re-entrant use — a closure that calls `apply` on the lock it runs under blocks forever
on `std::sync::Mutex`, and nested use of several locks can deadlock in the usual way.  With
closures that do not call `apply`, several locks are harmless: a thread never waits for one
lock while holding another.) -/
theorem no_deadlock (sys : Sys) (sched : List Nat) :
    let s := run (init LockGen.applyShape sys) sched
    ¬ Finished sys.scripts.length s → ∃ t, (step s t).isSome = true := by
  rw [shape_is_lock_call_unlock]
  intro s hnf
  have hI := inv_reachable sys sched
  by_cases hex : ∃ l t, s.owner l = some t
  · obtain ⟨l, t, ho⟩ := hex
    refine ⟨t, ?_⟩
    obtain ⟨rest, h | ⟨f, h⟩ | h⟩ := (hI.thr t).of_owner ho <;> (unfold step; rw [h]; simp [ho])
  · have hnone : ∀ l, s.owner l = none := by
      intro l
      cases ho : s.owner l with
      | none => rfl
      | some t => exact absurd ⟨l, t, ho⟩ hex
    have : ∃ t, (s.thr t).prog ≠ [] := by
      apply Classical.byContradiction
      intro hall
      apply hnf
      intro t _
      apply Classical.byContradiction
      intro hne
      exact hall ⟨t, hne⟩
    obtain ⟨t, hne⟩ := this
    refine ⟨t, ?_⟩
    cases hI.thr t with
    | idle hp ho hr =>
      cases htodo : (serial (sinit sys) s.acqs).todo t with
      | nil => rw [htodo] at hp; exact absurd hp hne
      | cons c r =>
        rw [htodo, compile_cons] at hp
        unfold step; rw [hp]; simp [hnone c.lock]
    | acquired c hp ho hv hr => have := ho.1; rw [hnone] at this; cases this
    | readDone c hp ho hreg hv hr => have := ho.1; rw [hnone] at this; cases this
    | written l' hp ho hv hr => have := ho.1; rw [hnone] at this; cases this

/-! ### no lost update -/

/-- `g 0 + … + g (n-1)` -/
def total : Nat → (Nat → Nat) → Nat
  | 0, _ => 0
  | n + 1, g => total n g + g n

theorem total_congr {n : Nat} {g h : Nat → Nat} (H : ∀ t, t < n → g t = h t) : total n g = total n h := by
  induction n with
  | zero => rfl
  | succ n ih =>
    simp only [total]
    rw [ih (fun t ht => H t (Nat.lt_succ_of_lt ht)), H n (Nat.lt_succ_self n)]

theorem total_front (n : Nat) (g : Nat → Nat) : total (n + 1) g = g 0 + total n (fun t => g (t + 1)) := by
  induction n with
  | zero => simp [total]
  | succ n ih =>
    rw [total, ih]
    simp only [total]
    omega

theorem total_getD (g : List Closure → Nat) (l : List (List Closure)) :
    total l.length (fun t => g (l.getD t [])) = (l.map g).sum := by
  induction l with
  | nil => rfl
  | cons a r ih =>
    rw [List.length_cons, total_front]
    simp only [List.map_cons, List.sum_cons]
    rw [← ih]
    simp

theorem total_upd {α : Type} (n : Nat) (f : Nat → α) (g : α → Nat) (t0 : Nat) (a : α) (h : t0 < n) :
    total n (fun t => g (upd f t0 a t)) + g (f t0) = total n (fun t => g (f t)) + g a := by
  induction n with
  | zero => omega
  | succ n ih =>
    simp only [total]
    by_cases e : t0 = n
    · subst e
      have : total t0 (fun t => g (upd f t0 a t)) = total t0 (fun t => g (f t)) :=
        total_congr (fun t ht => by simp [upd_other f a (Nat.ne_of_lt ht)])
      rw [this, upd_same]
      omega
    · have := ih (by omega)
      rw [upd_other f a (Ne.symm e)]
      omega

theorem total_zero {n : Nat} {g : Nat → Nat} (H : ∀ t, t < n → g t = 0) : total n g = 0 := by
  induction n with
  | zero => rfl
  | succ n ih => simp only [total]; rw [ih (fun t ht => H t (Nat.lt_succ_of_lt ht)), H n (Nat.lt_succ_self n)]

/-- number of closures of a script that are applied to lock `l` -/
def cnt (l : Nat) (script : List Closure) : Nat := (script.filter (fun c => c.lock == l)).length

/-- a system in which every closure is the increment `|v| { let old = *v; *v = old + 1; old }` -/
def AllIncr (sys : Sys) : Prop := ∀ sc, sc ∈ sys.scripts → ∀ c, c ∈ sc → c.f = ⟨1, 1⟩

instance (sys : Sys) : Decidable (AllIncr sys) :=
  inferInstanceAs (Decidable (∀ sc, sc ∈ sys.scripts → ∀ c, c ∈ sc → c.f = ⟨1, 1⟩))

theorem sstep_incr (n l : Nat) (S : SState) (t0 : Nat)
    (hin : ∀ t c, c ∈ S.todo t → c.f = ⟨1, 1⟩) (habs : ∀ t, n ≤ t → S.todo t = []) :
    ((sstep S t0).vals l + (total n (fun t => cnt l ((sstep S t0).todo t)) : Nat)
        = S.vals l + (total n (fun t => cnt l (S.todo t)) : Nat)) ∧
      (∀ t c, c ∈ (sstep S t0).todo t → c.f = ⟨1, 1⟩) ∧ (∀ t, n ≤ t → (sstep S t0).todo t = []) := by
  unfold sstep
  cases htodo : S.todo t0 with
  | nil => exact ⟨rfl, hin, habs⟩
  | cons c rest =>
    have ht0 : t0 < n := by
      apply Classical.byContradiction; intro h
      rw [habs t0 (Nat.le_of_not_lt h)] at htodo; cases htodo
    have hc : c.f = ⟨1, 1⟩ := hin t0 c (by rw [htodo]; exact List.mem_cons_self)
    refine ⟨?_, ?_, ?_⟩
    · have hu := total_upd n S.todo (cnt l) t0 rest ht0
      rw [htodo] at hu
      simp only []
      by_cases e : c.lock = l
      · subst e
        have : cnt c.lock (c :: rest) = cnt c.lock rest + 1 := by simp [cnt]
        rw [this] at hu
        rw [upd_same, hc]
        simp only [Rmw.app]
        omega
      · have : cnt l (c :: rest) = cnt l rest := by simp [cnt, e]
        rw [this] at hu
        rw [upd_other _ _ (Ne.symm e)]
        omega
    · intro t c' hc'
      simp only [] at hc'
      by_cases e : t = t0
      · subst e; rw [upd_same] at hc'; exact hin t c' (by rw [htodo]; exact List.mem_cons_of_mem _ hc')
      · rw [upd_other _ _ e] at hc'; exact hin t c' hc'
    · intro t ht
      simp only []
      have e : t ≠ t0 := by omega
      rw [upd_other _ _ e]; exact habs t ht

theorem serial_incr (n l : Nat) (order : List Nat) : ∀ (S : SState),
    (∀ t c, c ∈ S.todo t → c.f = ⟨1, 1⟩) → (∀ t, n ≤ t → S.todo t = []) →
    (serial S order).vals l + (total n (fun t => cnt l ((serial S order).todo t)) : Nat)
      = S.vals l + (total n (fun t => cnt l (S.todo t)) : Nat) := by
  induction order with
  | nil => intro S _ _; rfl
  | cons t0 r ih =>
    intro S hin habs
    obtain ⟨h1, h2, h3⟩ := sstep_incr n l S t0 hin habs
    have := ih (sstep S t0) h2 h3
    simp only [serial, List.foldl_cons] at this ⊢
    omega

/-- **No lost update.**  If every closure is an increment then, for every schedule that runs all
scripts to completion, the final value of every lock is its initial value plus the number of
closures (of all threads) that were applied to it: every one of the increments took effect. -/
theorem no_lost_update (sys : Sys) (hincr : AllIncr sys) (sched : List Nat) (l : Nat) :
    let s := run (init LockGen.applyShape sys) sched
    Finished sys.scripts.length s →
      s.vals l = sys.init.getD l 0 + ((sys.scripts.map (cnt l)).sum : Nat) := by
  intro s hF
  obtain ⟨hv, _, ht, _⟩ := serialisable sys sched hF
  have h := serial_incr sys.scripts.length l s.acqs (sinit sys)
    (by
      intro t c hc
      simp only [sinit, List.getD_eq_getElem?_getD] at hc
      cases hg : sys.scripts[t]? with
      | none => rw [hg] at hc; cases hc
      | some sc => rw [hg] at hc; exact hincr sc (List.mem_of_getElem? hg) c hc)
    (by intro t ht; simp [sinit, List.getElem?_eq_none ht])
  rw [total_zero (g := fun t => cnt l ((serial (sinit sys) s.acqs).todo t))
    (fun t _ => by show cnt l ((serial (sinit sys) s.acqs).todo t) = 0; rw [ht t]; rfl)] at h
  have hs : total sys.scripts.length (fun t => cnt l ((sinit sys).todo t)) = (sys.scripts.map (cnt l)).sum :=
    total_getD (cnt l) sys.scripts
  rw [hs] at h
  rw [hv l]
  simpa [sinit] using h

/-! ### no lost update, at every moment -/

theorem mem_compile_write {l : Nat} {f : Rmw} {script : List Closure}
    (h : Micro.write l f ∈ compile good script) : ∃ c, c ∈ script ∧ c.f = f := by
  induction script with
  | nil => simp [compile] at h
  | cons c r ih =>
    rw [compile_cons] at h
    simp only [List.mem_cons, reduceCtorEq, false_or] at h
    rcases h with h | h
    · injection h with _ h2; exact ⟨c, List.mem_cons_self, h2.symm⟩
    · obtain ⟨c', hc', hf⟩ := ih h; exact ⟨c', List.mem_cons_of_mem _ hc', hf⟩

theorem step_prog_sub {s s' : State} {t0 : Nat} (h : step s t0 = some s') (t : Nat) (m : Micro)
    (hm : m ∈ (s'.thr t).prog) : m ∈ (s.thr t).prog := by
  by_cases e : t = t0
  · subst e
    unfold step at h
    split at h
    · cases h
    · rename_i hp
      split at h
      · cases h
      · cases h; rw [hp]; simp at hm; exact List.mem_cons_of_mem _ hm
    · rename_i hp; cases h; rw [hp]; simp at hm; exact List.mem_cons_of_mem _ hm
    · rename_i hp; cases h; rw [hp]; simp at hm; exact List.mem_cons_of_mem _ hm
    · rename_i hp
      split at h
      · cases h; rw [hp]; simp at hm; exact List.mem_cons_of_mem _ hm
      · cases h
  · rw [step_thr_other h e] at hm; exact hm

/-- everything needed to count: the invariant, "all pending writes are increments", and the count -/
structure CountInv (sys : Sys) (s : State) : Prop where
  inv : Inv sys s
  incr : ∀ t l f, Micro.write l f ∈ (s.thr t).prog → f = ⟨1, 1⟩
  count : ∀ l, s.vals l = sys.init.getD l 0 + (s.commits l : Nat)

theorem countInv_init (sys : Sys) (hincr : AllIncr sys) : CountInv sys (init good sys) where
  inv := inv_init sys
  incr := by
    intro t l f h
    obtain ⟨c, hc, hf⟩ := mem_compile_write h
    simp only [List.getD_eq_getElem?_getD] at hc
    cases hg : sys.scripts[t]? with
    | none => rw [hg] at hc; cases hc
    | some sc => rw [hg] at hc; rw [← hf]; exact hincr sc (List.mem_of_getElem? hg) c hc
  count := by intro l; simp [init]

theorem countInv_step {sys : Sys} {s s' : State} {t0 : Nat} (hC : CountInv sys s) (h : step s t0 = some s') :
    CountInv sys s' := by
  refine ⟨inv_step hC.inv h, fun t l f hm => hC.incr t l f (step_prog_sub h t _ hm), ?_⟩
  have hcount := hC.count
  have hT := hC.inv.thr t0
  unfold step at h
  split at h
  · cases h
  · split at h
    · cases h
    · cases h; exact hcount
  · cases h; exact hcount
  · rename_i l f rest hprog
    cases h
    have hreg := hT.reg_of_write hprog
    have hf := hC.incr t0 l f (by rw [hprog]; exact List.mem_cons_self)
    intro l'
    by_cases e : l' = l
    · subst e
      have := hcount l'
      simp only [upd_same, hf, hreg, Rmw.app]
      omega
    · simp only [upd_other _ _ e]; exact hcount l'
  · split at h
    · cases h; exact hcount
    · cases h

theorem countInv_run {sys : Sys} (sched : List Nat) : ∀ {s : State}, CountInv sys s → CountInv sys (run s sched) := by
  induction sched with
  | nil => intro s h; exact h
  | cons t r ih =>
    intro s h
    apply ih
    show CountInv sys (exec s t)
    unfold exec
    cases hs : step s t with
    | none => exact h
    | some s' => exact countInv_step h hs

/-- **No lost update, at every moment.**  If every closure is an increment then in every reachable
state (any schedule, finished or not) the value of every lock is its initial value plus the
number of increments completed on it so far (`commits`: one per executed write). -/
theorem no_lost_update_so_far (sys : Sys) (hincr : AllIncr sys) (sched : List Nat) (l : Nat) :
    let s := run (init LockGen.applyShape sys) sched
    s.vals l = sys.init.getD l 0 + (s.commits l : Nat) := by
  rw [shape_is_lock_call_unlock]
  exact (countInv_run sched (countInv_init sys hincr)).count l

/-! ### the model allows exactly the serial outcomes -/

/-- quiescent state of the concurrent semantics that corresponds to a serial state -/
structure Quiet (s : State) (S : SState) : Prop where
  prog : ∀ t, (s.thr t).prog = compile good (S.todo t)
  rets : ∀ t, (s.thr t).rets = S.rets t
  owner : ∀ l, s.owner l = none
  vals : ∀ l, s.vals l = S.vals l

theorem quiet_atomic {s : State} {S : SState} (t : Nat) (h : Quiet s S) :
    Quiet (run s [t, t, t, t]) (sstep S t) := by
  obtain ⟨hp, hr, ho, hv⟩ := h
  cases htodo : S.todo t with
  | nil =>
    have hnil : (s.thr t).prog = [] := by rw [hp t, htodo]; rfl
    have he : exec s t = s := by unfold exec; rw [step_nil hnil]; rfl
    have : run s [t, t, t, t] = s := by simp [run, he]
    rw [this]
    unfold sstep; rw [htodo]
    exact ⟨hp, hr, ho, hv⟩
  | cons c rest =>
    have hprog := hp t
    rw [htodo, compile_cons] at hprog
    have e1 : exec s t =
        { s with
          owner := upd s.owner c.lock (some t)
          thr := upd s.thr t ⟨.read c.lock :: .write c.lock c.f :: .release c.lock :: compile good rest,
            (s.thr t).reg, (s.thr t).rets⟩
          acqs := s.acqs ++ [t] } := by
      unfold exec step; rw [hprog]; simp [ho c.lock]
    have e : run s [t, t, t, t] =
        { s with
          vals := upd s.vals c.lock (c.f.app (s.vals c.lock))
          owner := upd (upd s.owner c.lock (some t)) c.lock none
          thr := upd (upd (upd (upd s.thr t
            ⟨.read c.lock :: .write c.lock c.f :: .release c.lock :: compile good rest, (s.thr t).reg, (s.thr t).rets⟩) t
            ⟨.write c.lock c.f :: .release c.lock :: compile good rest, s.vals c.lock, (s.thr t).rets⟩) t
            ⟨.release c.lock :: compile good rest, s.vals c.lock, (s.thr t).rets ++ [s.vals c.lock]⟩) t
            ⟨compile good rest, s.vals c.lock, (s.thr t).rets ++ [s.vals c.lock]⟩
          acqs := s.acqs ++ [t]
          commits := upd s.commits c.lock (s.commits c.lock + 1) } := by
      simp only [run, List.foldl_cons, List.foldl_nil, e1]
      simp [exec, step]
    rw [e]
    unfold sstep; rw [htodo]
    constructor
    · intro t'
      by_cases ht : t' = t
      · subst ht; simp
      · simp [upd_other _ _ ht, hp t']
    · intro t'
      by_cases ht : t' = t
      · subst ht; simp [hr t', hv c.lock]
      · simp [upd_other _ _ ht, hr t']
    · intro l
      by_cases hl : l = c.lock
      · subst hl; simp
      · simp [upd_other _ _ hl, ho l]
    · intro l
      by_cases hl : l = c.lock
      · subst hl; simp [hv c.lock]
      · simp [upd_other _ _ hl, hv l]

theorem run_append (s : State) (a b : List Nat) : run s (a ++ b) = run (run s a) b := by
  simp [run, List.foldl_append]

theorem quiet_serial (order : List Nat) : ∀ {s : State} {S : SState}, Quiet s S →
    Quiet (run s (order.flatMap fun t => [t, t, t, t])) (serial S order) := by
  induction order with
  | nil => intro s S h; exact h
  | cons t r ih =>
    intro s S h
    rw [List.flatMap_cons, run_append]
    exact ih (quiet_atomic t h)

/-- **Every serial order is a behaviour of the model** (converse of `serialisable`): for every order
there is a schedule whose run produces exactly the values, returned values and remaining
scripts of the serial execution in that order.  So the histories the model allows are exactly
the outcomes of serial executions — what `lockcheck` decides. -/
theorem serial_realisable (sys : Sys) (order : List Nat) :
    ∃ sched, let s := run (init LockGen.applyShape sys) sched
      (∀ l, s.vals l = (serial (sinit sys) order).vals l) ∧
      (∀ t, (s.thr t).rets = (serial (sinit sys) order).rets t) ∧
      (∀ t, (s.thr t).prog = compile LockGen.applyShape ((serial (sinit sys) order).todo t)) := by
  rw [shape_is_lock_call_unlock]
  refine ⟨order.flatMap fun t => [t, t, t, t], ?_⟩
  have h := quiet_serial order (s := init good sys) (S := sinit sys)
    ⟨fun _ => rfl, fun _ => rfl, fun _ => rfl, fun _ => rfl⟩
  exact ⟨h.vals, h.rets, h.prog⟩

/-- **What `lockcheck` decides.**  An observed outcome (values returned to each thread, final lock
values) is the outcome of some completed run of the model iff it is the outcome of some serial
execution of all closures. -/
theorem model_allows_iff_serial (sys : Sys) (obs : List (List Int) × List Int) :
    (∃ sched, Finished sys.scripts.length (run (init LockGen.applyShape sys) sched) ∧
        outcome sys (run (init LockGen.applyShape sys) sched) = obs) ↔
    ∃ order, serialOutcome sys order = some obs := by
  constructor
  · intro ⟨sched, hF, ho⟩
    exact ⟨_, by rw [serialisable_outcome sys sched hF, ho]⟩
  · intro ⟨order, ho⟩
    obtain ⟨sched, hv, hr, hp⟩ := serial_realisable sys order
    unfold serialOutcome at ho
    simp only [] at ho
    split at ho
    · rename_i hall
      injection ho with ho
      refine ⟨sched, ?_, ?_⟩
      · intro t ht
        have h0 : ((serial (sinit sys) order).todo t).isEmpty = true := by
          simp only [List.all_eq_true] at hall; exact hall t (List.mem_range.mpr ht)
        rw [hp t, List.isEmpty_iff.mp h0]; rfl
      · rw [← ho]
        unfold outcome
        congr 1
        · apply List.map_congr_left; intro t _; exact hr t
        · apply List.map_congr_left; intro l _; exact hv l
    · cases ho

/-! ### progress: every reachable state can be run to completion -/

/-- micro-steps still to be executed by the first `n` threads -/
def remaining (n : Nat) (s : State) : Nat := total n (fun t => (s.thr t).prog.length)

theorem step_shape {s s' : State} {t : Nat} (h : step s t = some s') :
    ∃ m th', (s.thr t).prog = m :: th'.prog ∧ s'.thr = upd s.thr t th' := by
  unfold step at h
  split at h
  · cases h
  · rename_i hp
    split at h
    · cases h
    · cases h; exact ⟨_, _, hp, rfl⟩
  · rename_i hp; cases h; exact ⟨_, _, hp, rfl⟩
  · rename_i hp; cases h; exact ⟨_, _, hp, rfl⟩
  · rename_i hp
    split at h
    · cases h; exact ⟨_, _, hp, rfl⟩
    · cases h

theorem step_remaining {n : Nat} {s s' : State} {t : Nat} (h : step s t = some s') (ht : t < n) :
    remaining n s' + 1 = remaining n s := by
  obtain ⟨m, th', hp, hthr⟩ := step_shape h
  have := total_upd n s.thr (fun th => th.prog.length) t th' ht
  simp only [remaining, hthr]
  rw [hp, List.length_cons] at this
  omega

theorem can_finish_aux (sys : Sys) : ∀ (k : Nat) (sched : List Nat),
    remaining sys.scripts.length (run (init good sys) sched) = k →
    ∃ sched', Finished sys.scripts.length (run (init good sys) (sched ++ sched')) := by
  intro k
  induction k using Nat.strongRecOn with
  | _ k ih =>
    intro sched hk
    by_cases hF : Finished sys.scripts.length (run (init good sys) sched)
    · exact ⟨[], by rw [List.append_nil]; exact hF⟩
    · have hd := no_deadlock sys sched
      rw [shape_is_lock_call_unlock] at hd
      obtain ⟨t, ht⟩ := hd hF
      cases hs : step (run (init good sys) sched) t with
      | none => rw [hs] at ht; cases ht
      | some s' =>
        have hlt : t < sys.scripts.length := by
          apply Classical.byContradiction; intro hge
          rw [step_nil (absent_thread sys sched t (Nat.le_of_not_lt hge))] at hs; cases hs
        have hrun : run (init good sys) (sched ++ [t]) = s' := by
          rw [run_append]
          show exec (run (init good sys) sched) t = s'
          unfold exec; rw [hs]; rfl
        have hdec := step_remaining hs hlt
        obtain ⟨sched', hfin⟩ := ih (remaining sys.scripts.length s') (by omega) (sched ++ [t]) (by rw [hrun])
        exact ⟨t :: sched', by rw [List.append_assoc] at hfin; exact hfin⟩

/-- **Every reachable state can be run to completion** (no deadlock, ever): whatever the schedule
did so far, it can be extended so that all scripts finish.  Every step of a thread consumes one
of its micro-steps, so a scheduler that keeps picking enabled threads gets there in exactly
`remaining` steps. -/
theorem always_can_finish (sys : Sys) (sched : List Nat) :
    ∃ sched', Finished sys.scripts.length (run (init LockGen.applyShape sys) (sched ++ sched')) := by
  rw [shape_is_lock_call_unlock]
  exact can_finish_aux sys _ sched rfl

/-! ### non-vacuity: concrete systems, decided by evaluation of the model -/

/-- two threads hammering one lock with two increments each -/
def sys2 : Sys := ⟨[0], [[incr 0, incr 0], [incr 0, incr 0]]⟩
/-- three threads, two locks, closures that do not commute (`2v+1`, `3v`, `v+1`, `v+5`, `2v`) -/
def sys3 : Sys := ⟨[1, 10], [[⟨0, ⟨2, 1⟩⟩, ⟨1, ⟨1, 5⟩⟩], [⟨0, ⟨3, 0⟩⟩], [⟨1, ⟨2, 0⟩⟩, ⟨0, ⟨1, 1⟩⟩]]⟩
/-- an uneven schedule with plenty of contention (blocked picks are no-ops) -/
def sched2 : List Nat := [0, 1, 1, 0, 1, 0, 0, 1, 1, 1, 0, 0, 0, 1, 1, 1, 1, 0, 0, 0, 0, 1, 1, 1, 1, 1, 0, 0, 0, 0]
def sched3 : List Nat := (List.replicate 12 [2, 0, 1, 1, 0]).flatten

-- `serialisable` / `no_lost_update` are not vacuous: these schedules do run everything to completion …
example : Finished 2 (run (init LockGen.applyShape sys2) sched2) := by decide +kernel
example : Finished 3 (run (init LockGen.applyShape sys3) sched3) := by decide +kernel
-- … under real contention: after thread 0 took the lock, thread 1 is blocked (and thread 0 is not)
example : (step (run (init LockGen.applyShape sys2) [0]) 1).isSome = false ∧
    (step (run (init LockGen.applyShape sys2) [0]) 0).isSome = true := by decide +kernel
-- … and the outcomes are the serial ones, in acquisition order
example : (run (init LockGen.applyShape sys2) sched2).acqs = [0, 1, 1, 0] ∧
    outcome sys2 (run (init LockGen.applyShape sys2) sched2) = ([[0, 3], [1, 2]], [4]) ∧
    serialOutcome sys2 [0, 1, 1, 0] = some ([[0, 3], [1, 2]], [4]) := by decide +kernel
example : (run (init LockGen.applyShape sys3) sched3).acqs = [2, 0, 1, 0, 2] ∧
    outcome sys3 (run (init LockGen.applyShape sys3) sched3) = ([[1, 20], [3], [10, 9]], [10, 25]) ∧
    serialOutcome sys3 [2, 0, 1, 0, 2] = some ([[1, 20], [3], [10, 9]], [10, 25]) := by decide +kernel
-- a different order gives a different outcome: the closures of `sys3` do not commute
example : serialOutcome sys3 [1, 0, 2, 0, 2] = some ([[3, 20], [1], [10, 7]], [8, 25]) := by decide +kernel
-- `no_lost_update`: its hypothesis holds for `sys2`, and the count is 4
example : AllIncr sys2 := by decide +kernel
example : (run (init LockGen.applyShape sys2) sched2).vals 0 = 0 + ((sys2.scripts.map (cnt 0)).sum : Nat) := by decide +kernel
-- `mutual_exclusion`: states with a thread inside a call are reachable (both micro-steps of the call)
example : inCall (run (init LockGen.applyShape sys2) [0]) 0 0 = true ∧
    inCall (run (init LockGen.applyShape sys2) [0, 1, 0]) 0 0 = true ∧
    inCall (run (init LockGen.applyShape sys2) [0, 1, 0]) 1 0 = false := by decide +kernel
-- `no_deadlock`: non-final states are reachable, also ones in which a thread is blocked
example : ¬ Finished 2 (run (init LockGen.applyShape sys2) [0, 1, 0]) := by decide +kernel
example : ¬ Finished 3 (run (init LockGen.applyShape sys3) [0, 2, 1, 2]) ∧
    (step (run (init LockGen.applyShape sys3) [0, 2, 1, 2]) 1).isSome = false := by decide +kernel

/-! ### the model discriminates: with another shape of `apply` the same systems lose updates -/

/-- `apply` that copies the value out, releases the lock, runs the closure on the copy and writes
the copy back in a second critical section would be emitted as this step list … -/
def earlyRelease : List Step := [.acquire, .release, .call, .acquire, .release]

-- … and then increments read the same value: lost updates (final value 2 instead of 4), the same
-- value returned twice, and two threads inside a call on the same lock at the same time
example : Finished 2 (run (init earlyRelease sys2) ([0, 0, 1, 1, 0, 1, 0, 1] ++ sched2 ++ sched2)) ∧
    outcome sys2 (run (init earlyRelease sys2) ([0, 0, 1, 1, 0, 1, 0, 1] ++ sched2 ++ sched2)) = ([[0, 1], [0, 1]], [2]) := by
  decide +kernel
example : inCall (run (init earlyRelease sys2) [0, 0, 1, 1]) 0 0 = true ∧
    inCall (run (init earlyRelease sys2) [0, 0, 1, 1]) 1 0 = true := by decide +kernel
-- no serial order produces that outcome (all 6 interleavings of two scripts of length 2)
example : ∀ order ∈ [[0, 0, 1, 1], [0, 1, 0, 1], [0, 1, 1, 0], [1, 0, 0, 1], [1, 0, 1, 0], [1, 1, 0, 0]],
    serialOutcome sys2 order ≠ some ([[0, 1], [0, 1]], [2]) := by decide +kernel
-- an `apply` without any lock
example : outcome sys2 (run (init [.call] sys2) [0, 1, 0, 1, 0, 1, 0, 1]) = ([[0, 1], [0, 1]], [2]) := by decide +kernel

end Essential.C20
