/-
Helper lemmas about the codec model (`Model/Asm.lean`) over the generated op table.
-/
import Essential.Model.Asm

namespace Essential
open Spec

/-- an op is well formed when its immediate (if any) is an `i64` -/
def Spec.Op.WF (op : Op) : Prop := match op.imm with | some w => InI64 w | none => True

instance (op : Op) : Decidable op.WF := by unfold Op.WF; split <;> infer_instance

theorem immBytes_opcode (op : Op) :
    immBytes op.opcode = some (match op.imm with | some _ => 8 | none => 0) := by
  cases op <;> rfl

theorem ofOpcode_opcode_none (op : Op) (h : op.imm = none) (w : Int) : ofOpcode op.opcode w = some op := by
  cases op <;> first | rfl | simp [Op.imm] at h

theorem ofOpcode_opcode_some (op : Op) (w : Int) (h : op.imm = some w) : ofOpcode op.opcode w = some op := by
  cases op <;> simp_all [Op.imm, Op.opcode, ofOpcode]

/-- `ofOpcode` only ever returns an op with that opcode, carrying exactly the given word
when the op has an immediate -/
theorem ofOpcode_sound (b : Nat) (w : Int) (op : Op) (h : ofOpcode b w = some op) :
    op.opcode = b ∧ (op.imm = none ∨ op.imm = some w) ∧
    immBytes b = some (match op.imm with | some _ => 8 | none => 0) := by
  unfold ofOpcode at h
  split at h <;> first
    | (cases h; refine ⟨rfl, ?_, rfl⟩; simp [Op.imm])
    | (exact absurd h (by simp))

theorem ofOpcode_isSome_of_immBytes (b : Nat) (k : Nat) (w : Int) (h : immBytes b = some k) :
    (ofOpcode b w).isSome := by
  unfold immBytes at h
  split at h <;> first | rfl | (exact absurd h (by simp))

theorem immBytes_eq_zero_or_eight (b k : Nat) (h : immBytes b = some k) : k = 0 ∨ k = 8 := by
  unfold immBytes at h
  split at h <;> first | (cases h; simp) | (exact absurd h (by simp))

theorem encodeOp_length (op : Op) :
    (encodeOp op).length = 1 + (match op.imm with | some _ => 8 | none => 0) := by
  unfold encodeOp
  cases h : op.imm <;> simp [bytesOfWord_length] <;> omega

theorem tryFromBytes_encodeOp (op : Op) (hwf : op.WF) (tail : List Nat) :
    ∃ imm, encodeOp op ++ tail = op.opcode :: (imm ++ tail) ∧
      tryFromBytes op.opcode (imm ++ tail) = (.ok op, tail) := by
  unfold encodeOp
  cases himm : op.imm with
  | none =>
    refine ⟨[], by simp, ?_⟩
    simp [tryFromBytes, immBytes_opcode, himm, ofOpcode_opcode_none op himm]
  | some w =>
    have hw : InI64 w := by simpa [Op.WF, himm] using hwf
    have hl := bytesOfWord_length w
    refine ⟨bytesOfWord w, by simp, ?_⟩
    simp only [tryFromBytes, immBytes_opcode, himm, List.length_append, hl]
    have : ¬ (8 + tail.length < 8) := by omega
    simp only [this, if_false, List.take_left' hl, List.drop_left' hl, wordOfBytes_bytesOfWord w hw,
      ofOpcode_opcode_some op w himm]

theorem decodeStream_nil : decodeStream [] = [] := by
  rw [decodeStream]

theorem decodeStream_cons (b : Nat) (rest : List Nat) :
    decodeStream (b :: rest) = (tryFromBytes b rest).1 :: decodeStream (tryFromBytes b rest).2 := by
  rw [decodeStream]

theorem decodeStream_encodeOp_append (op : Op) (hwf : op.WF) (tail : List Nat) :
    decodeStream (encodeOp op ++ tail) = .ok op :: decodeStream tail := by
  obtain ⟨imm, h1, h2⟩ := tryFromBytes_encodeOp op hwf tail
  rw [h1, decodeStream_cons, h2]

theorem decodeStream_encode_append (ops : List Op) (h : ∀ op ∈ ops, op.WF) (tail : List Nat) :
    decodeStream (encode ops ++ tail) = ops.map .ok ++ decodeStream tail := by
  induction ops with
  | nil => simp [encode]
  | cons op ops ih =>
    have hwf := h op (by simp)
    have ih' := ih (fun o ho => h o (by simp [ho]))
    simp only [encode, List.flatMap_cons, List.append_assoc] at ih' ⊢
    rw [decodeStream_encodeOp_append op hwf, ih']
    simp

theorem collect_map_ok_append (ops : List Op) (rest : List (Except DecErr Op)) :
    collect (ops.map .ok ++ rest) = (collect rest).map (ops ++ ·) := by
  induction ops with
  | nil => simp; cases collect rest <;> rfl
  | cons op ops ih =>
    simp only [List.map_cons, List.cons_append, collect, ih]
    cases collect rest <;> rfl

/-- the bytes produced by the encoder are bytes -/
theorem encodeOp_allBytes (op : Op) : AllBytes (encodeOp op) := by
  intro b hb
  unfold encodeOp at hb
  simp only [List.mem_cons] at hb
  rcases hb with rfl | hb
  · cases op <;> simp [Op.opcode]
  · cases h : op.imm with
    | none => simp [h] at hb
    | some w => simp only [h] at hb; exact bytesOfWord_allBytes w b hb

theorem take_drop_eight (l : List Nat) (h : 8 ≤ l.length) :
    ∃ a b c d e f g hh, l.take 8 = [a, b, c, d, e, f, g, hh] := by
  match l, h with
  | a :: b :: c :: d :: e :: f :: g :: hh :: _, _ => exact ⟨a, b, c, d, e, f, g, hh, rfl⟩

/-- one successful parse step re-encodes to exactly the consumed bytes -/
theorem tryFromBytes_ok (b : Nat) (rest : List Nat) (hb : AllBytes (b :: rest)) (op : Op) (tail : List Nat)
    (h : tryFromBytes b rest = (.ok op, tail)) : b :: rest = encodeOp op ++ tail ∧ op.WF := by
  unfold tryFromBytes at h
  split at h
  · simp at h
  · rename_i k hk
    split at h
    · simp at h
    · rename_i hlen
      split at h
      · rename_i op' hop
        simp only [Prod.mk.injEq, Except.ok.injEq] at h
        obtain ⟨rfl, rfl⟩ := h
        obtain ⟨h1, h2, h3⟩ := ofOpcode_sound b _ op' hop
        rw [hk] at h3
        unfold encodeOp Op.WF
        rcases h2 with h2 | h2
        · simp only [h2] at h3 ⊢
          have : k = 0 := by simpa using h3
          subst this; simp [h1]
        · simp only [h2] at h3 ⊢
          have : k = 8 := by simpa using h3
          subst this
          have hlen' : 8 ≤ rest.length := by omega
          obtain ⟨a1, a2, a3, a4, a5, a6, a7, a8, ht⟩ := take_drop_eight rest hlen'
          have hmem : ∀ x ∈ rest.take 8, x < 256 := fun x hx =>
            hb x (List.mem_cons_of_mem _ (List.mem_of_mem_take hx))
          rw [ht] at hmem ⊢
          refine ⟨?_, wordOfBytes_inI64 _ (by intro x hx; exact hmem x hx)⟩
          rw [bytesOfWord_wordOfBytes _ _ _ _ _ _ _ _ (hmem _ (by simp)) (hmem _ (by simp)) (hmem _ (by simp))
            (hmem _ (by simp)) (hmem _ (by simp)) (hmem _ (by simp)) (hmem _ (by simp)) (hmem _ (by simp))]
          rw [h1, ← ht, List.cons_append, List.take_append_drop]
      · simp at h

end Essential
