/-
Integer facts behind the ALU model: results of the checked / wrapping operations are `i64`s.
-/
import Essential.Model.Vm

namespace Essential

theorem tdiv_inI64 {a b : Int} (ha : InI64 a) (_hb : InI64 b)
    (h : ¬ (b = 0 ∨ (a = i64Min ∧ b = -1))) : InI64 (a.tdiv b) := by
  unfold InI64 i64Min at *
  have hq : (a.tdiv b).natAbs = a.natAbs / b.natAbs := Int.natAbs_tdiv a b
  have hle : a.natAbs / b.natAbs ≤ a.natAbs := Nat.div_le_self _ _
  have hb0 : b ≠ 0 := fun e => h (Or.inl e)
  constructor
  · omega
  · -- the only way to reach 2^63 is MIN / -1 (excluded) — MIN / 1 = MIN
    by_cases hq2 : a.tdiv b = 9223372036854775808
    · exfalso
      have h1 : a.natAbs / b.natAbs = 9223372036854775808 := by rw [← hq, hq2]; rfl
      have h2 : a.natAbs = 9223372036854775808 := by omega
      have h3 : b.natAbs = 1 := by
        have hbpos : 0 < b.natAbs := by omega
        by_cases hb1 : b.natAbs = 1
        · exact hb1
        · exfalso
          have : 2 ≤ b.natAbs := by omega
          have : a.natAbs / b.natAbs ≤ a.natAbs / 2 := Nat.div_le_div_left this (by omega)
          omega
      have ha' : a = -9223372036854775808 := by omega
      rcases (by omega : b = 1 ∨ b = -1) with hb' | hb'
      · subst hb'; rw [Int.tdiv_one] at hq2; omega
      · exact h (Or.inr ⟨ha', hb'⟩)
    · omega

theorem tmod_inI64 {a b : Int} (ha : InI64 a) : InI64 (a.tmod b) := by
  unfold InI64 at *
  have hq : (a.tmod b).natAbs = a.natAbs % b.natAbs := Int.natAbs_tmod a b
  have hle : a.natAbs % b.natAbs ≤ a.natAbs := Nat.mod_le _ _
  by_cases h0 : 0 ≤ a
  · have := Int.tmod_nonneg b h0
    omega
  · have hneg : (-a).tmod b = -(a.tmod b) := Int.neg_tmod a b
    have := Int.tmod_nonneg b (show 0 ≤ -a by omega)
    omega

theorem ediv_two_pow_inI64 (k : Nat) : ∀ {a : Int}, InI64 a → InI64 (a / (2 ^ k : Int)) := by
  induction k with
  | zero => intro a ha; simpa using ha
  | succ k ih =>
    intro a ha
    have : a / (2 ^ (k + 1) : Int) = (a / (2 ^ k : Int)) / 2 := by
      rw [Int.pow_succ, Int.ediv_ediv_of_nonneg (Int.pow_nonneg (by omega))]
    rw [this]
    have := ih ha
    unfold InI64 at *
    omega
