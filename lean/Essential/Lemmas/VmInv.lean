/-
Every primitive of the VM model preserves the machine invariant and never panics
(building blocks of C05's `stepOp_inv`).
-/
import Essential.Lemmas.Vm
import Essential.Lemmas.Arith

set_option linter.unusedSimpArgs false
namespace Essential
open Spec



/-- one step of the wp calculus -/
macro "wp_step" : tactic => `(tactic| first
  | rw [Res.wp_bind']
  | rw [Res.wp_bind]
  | rw [Res.wp_mapErr]
  | (apply pop_wp; intro _ _ _)
  | (apply pop2_wp; intro _ _ _ _)
  | (apply push_wp; intro _)
  | (apply extend_wp; intro _)
  | (apply usizeOr_wp; intro _ _)
  | (apply splitLenWords_wp; intro _ _ _)
  | (apply splitLen_wp; intro _ _ _ _))

macro "wp_steps" : tactic => `(tactic| repeat (first | wp_step | simp only []))

/-! ### stack ops -/

theorem pop_ok (s : Stack) (h : StackOk s) (Q : Stack × Int → Prop)
    (hQ : ∀ t w, StackOk t → InI64 w → t.length + 1 = s.length → Q (t, w)) : (Stack.pop s).wp Q := by
  apply pop_wp; intro t w hs; subst hs
  have := AllI64_append.mp h.typed
  have hl := h.len
  simp at hl
  exact hQ t w ⟨by omega, this.1⟩ (AllI64_singleton.mp this.2) (by simp)

theorem pop2_ok (s : Stack) (h : StackOk s) (Q : Stack × Int × Int → Prop)
    (hQ : ∀ t a b, StackOk t → InI64 a → InI64 b → t.length + 2 = s.length → Q (t, a, b)) : (Stack.pop2 s).wp Q := by
  apply pop2_wp; intro t a b hs; subst hs
  have := AllI64_append.mp h.typed
  have h2 := this.2
  simp only [AllI64_cons] at h2
  have hl := h.len
  simp at hl
  exact hQ t a b ⟨by omega, this.1⟩ h2.1 h2.2.1 (by simp)

theorem pop4_ok (s : Stack) (h : StackOk s) (Q : Stack × List Int → Prop)
    (hQ : ∀ t ws, StackOk t → AllI64 ws → ws.length = 4 → t.length + 4 = s.length → Q (t, ws)) :
    (Stack.pop4 s).wp Q := by
  unfold Stack.pop4 Stack.pop3
  simp only [Res.bind_eq_bind, Res.wp_bind']
  apply pop_ok s h; intro s1 w3 h1 hw3 hl1
  try simp only [Res.wp_bind']
  apply pop_ok s1 h1; intro s2 w2 h2 hw2 hl2
  try simp only [Res.wp_bind']
  apply pop2_ok s2 h2; intro s3 w0 w1 h3 hw0 hw1 hl3
  simp only [Res.wp_ok, Res.pure_eq_ok]
  apply hQ s3 _ h3 _ rfl (by omega)
  simp [AllI64_cons, hw0, hw1, hw2, hw3, AllI64_nil]

theorem pop8_ok (s : Stack) (h : StackOk s) (Q : Stack × List Int → Prop)
    (hQ : ∀ t ws, StackOk t → AllI64 ws → ws.length = 8 → t.length + 8 = s.length → Q (t, ws)) :
    (Stack.pop8 s).wp Q := by
  unfold Stack.pop8
  simp only [Res.bind_eq_bind, Res.wp_bind']
  apply pop4_ok s h; intro s1 hi h1 hhi hl hl1
  try simp only [Res.wp_bind']
  apply pop4_ok s1 h1; intro s2 lo h2 hlo hl' hl2
  simp only [Res.wp_ok, Res.pure_eq_ok]
  exact hQ s2 _ h2 (AllI64_append.mpr ⟨hlo, hhi⟩) (by simp [hl, hl']) (by omega)

theorem push_ok' (s : Stack) (w : Int) (h : StackOk s) (hw : InI64 w) : (Stack.push s w).wp StackOk := by
  apply push_wp; intro hl
  exact ⟨by simp; have := sizeLimit_eq; omega, AllI64_append.mpr ⟨h.typed, AllI64_singleton.mpr hw⟩⟩

theorem extend_ok' (s : Stack) (ws : List Int) (h : StackOk s) (hw : AllI64 ws) : (Stack.extend s ws).wp StackOk := by
  apply extend_wp; intro hl
  refine ⟨?_, AllI64_append.mpr ⟨h.typed, hw⟩⟩
  rcases hl with rfl | hl
  · simpa using h.len
  · have := sizeLimit_eq; simp; omega

theorem dupFrom_ok (s : Stack) (h : StackOk s) : (Stack.dupFrom s).wp StackOk := by
  unfold Stack.dupFrom
  simp only [Res.bind_eq_bind, Res.wp_bind']
  apply pop_ok s h; intro t w ht _ _
  try simp only [Res.wp_bind']
  apply usizeOr_wp; intro n _
  split
  · simp
  · split
    · simp
    · rename_i x hx
      exact push_ok' t x ht (AllI64_getElem? ht.typed hx)

theorem swapIndex_ok (s : Stack) (h : StackOk s) : (Stack.swapIndex s).wp StackOk := by
  unfold Stack.swapIndex
  simp only [Res.bind_eq_bind, Res.wp_bind']
  apply pop_ok s h; intro t w ht _ _
  try simp only []
  split
  · simp
  · simp only [Res.wp_bind']
    apply usizeOr_wp; intro n _
    split
    · simp
    · rename_i hne hlt
      have h1 : t.length - 1 - n < t.length := by omega
      have h2 : t.length - 1 < t.length := by omega
      simp only [List.getElem?_eq_getElem h1, List.getElem?_eq_getElem h2, Res.wp_ok]
      refine ⟨by simpa using ht.len, ?_⟩
      apply AllI64_set; apply AllI64_set
      · exact ht.typed
      · exact ht.typed _ (List.getElem_mem h2)
      · exact ht.typed _ (List.getElem_mem h1)

theorem select_ok (s : Stack) (h : StackOk s) : (Stack.select s).wp StackOk := by
  unfold Stack.select
  simp only [Res.bind_eq_bind, Res.wp_bind']
  apply pop_ok s h; intro t w ht _ _
  try simp only [Res.wp_bind']
  apply pop2_ok t ht; intro t2 a b ht2 ha hb _
  try simp only []
  split
  · simp
  · rename_i c _
    cases c
    · exact push_ok' t2 a ht2 ha
    · exact push_ok' t2 b ht2 hb

theorem copyWithin_wp (s : Stack) (src len dst : Nat) (Q : Stack → Prop)
    (h1 : src + len ≤ s.length) (h2 : dst + len ≤ s.length)
    (h : Q (s.take dst ++ (s.drop src).take len ++ s.drop (dst + len))) : (Stack.copyWithin s src len dst).wp Q := by
  unfold Stack.copyWithin; rw [if_pos ⟨h1, h2⟩]; exact h

theorem selectRange_ok (s : Stack) (h : StackOk s) : (Stack.selectRange s).wp StackOk := by
  unfold Stack.selectRange
  simp only [Res.bind_eq_bind, Res.wp_bind']
  apply pop_ok s h; intro t w ht _ _
  try simp only []
  split
  · simp
  · rename_i cond _
    try simp only [Res.wp_bind']
    apply pop_ok t ht; intro t2 lw ht2 _ _
    try simp only [Res.wp_bind']
    apply usizeOr_wp; intro n _
    split
    · simpa using ht2
    · split
      · simp
      · split
        · simp
        · rename_i hn0 _ hlen
          have hlen' : 2 * n ≤ t2.length := by omega
          try simp only [Res.wp_bind']
          cases cond
          · simp only [Bool.false_eq_true, if_false, Res.wp_ok, Res.pure_eq_ok]
            exact ⟨by simp; have := ht2.len; omega, AllI64_take _ ht2.typed⟩
          · simp only [if_true]
            apply copyWithin_wp
            · omega
            · omega
            · simp only [Res.wp_ok, Res.pure_eq_ok]
              refine ⟨by simp; have := ht2.len; omega, AllI64_take _ ?_⟩
              exact AllI64_append.mpr ⟨AllI64_append.mpr ⟨AllI64_take _ ht2.typed,
                AllI64_take _ (AllI64_drop _ ht2.typed)⟩, AllI64_drop _ ht2.typed⟩

theorem reserveZeroed_ok (s : Stack) (h : StackOk s) : (Stack.reserveZeroed s).wp StackOk := by
  unfold Stack.reserveZeroed
  simp only [Res.bind_eq_bind, Res.wp_bind']
  apply pop_ok s h; intro t w ht _ _
  try simp only [Res.wp_bind']
  apply usizeOr_wp; intro n _
  have key : ∀ newLen : Nat, (if newLen > Stack.sizeLimit then (Res.err Err.stackIndexOutOfBounds : Res Err Stack)
      else Stack.push (t ++ List.replicate (newLen - t.length) 0) (t.length : Int)).wp StackOk := by
    intro newLen
    split
    · simp
    · apply push_ok'
      · refine ⟨?_, AllI64_append.mpr ⟨ht.typed, AllI64_replicate _⟩⟩
        simp only [List.length_append, List.length_replicate]
        have := sizeLimit_eq
        have := ht.len
        omega
      · have := ht.len; unfold InI64; omega
  exact key _

theorem load_ok (s : Stack) (h : StackOk s) : (Stack.load s).wp StackOk := by
  unfold Stack.load
  simp only [Res.bind_eq_bind, Res.wp_bind']
  apply pop_ok s h; intro t w ht _ _
  try simp only [Res.wp_bind']
  apply usizeOr_wp; intro n _
  split
  · simp
  · rename_i x hx; exact push_ok' t x ht (AllI64_getElem? ht.typed hx)

theorem store_ok (s : Stack) (h : StackOk s) : (Stack.store s).wp StackOk := by
  unfold Stack.store
  simp only [Res.bind_eq_bind, Res.wp_bind']
  apply pop2_ok s h; intro t w ix ht hw _ _
  try simp only [Res.wp_bind']
  apply usizeOr_wp; intro n _
  split
  · simp only [Res.wp_ok]; exact ⟨by simpa using ht.len, AllI64_set _ _ ht.typed hw⟩
  · simp

theorem splitLenWords_ok (s : Stack) (h : StackOk s) (Q : List Int × List Int → Prop)
    (hQ : ∀ rest ws, StackOk rest → AllI64 ws → rest.length + ws.length + 1 = s.length → Q (rest, ws)) :
    (Stack.splitLenWords s).wp Q := by
  apply splitLenWords_wp; intro rest ws hs
  subst hs
  have := AllI64_append.mp h.typed
  have h2 := AllI64_append.mp this.1
  have hl := h.len
  simp at hl
  exact hQ rest ws ⟨by omega, h2.1⟩ h2.2 (by simp; omega)

theorem splitLen_ok (s : Stack) (n : Nat) (h : StackOk s) (Q : List Int × List Int → Prop)
    (hQ : ∀ rest ws, StackOk rest → AllI64 ws → ws.length = n → rest.length + n = s.length → Q (rest, ws)) :
    (Stack.splitLen s n).wp Q := by
  apply splitLen_wp; intro rest ws hs hl
  subst hs
  have := AllI64_append.mp h.typed
  have hl' := h.len
  simp at hl'
  exact hQ rest ws ⟨by omega, this.1⟩ this.2 hl (by simp [hl])

theorem dropLenWords_ok (s : Stack) (h : StackOk s) : (Stack.dropLenWords s).wp StackOk := by
  unfold Stack.dropLenWords
  simp only [Res.bind_eq_bind, Res.wp_bind']
  apply splitLenWords_ok s h; intro rest ws hr _ _
  simpa using hr

theorem pop2push1_ok (s : Stack) (f : Int → Int → Res Err Int) (h : StackOk s)
    (hf : ∀ a b, InI64 a → InI64 b → (f a b).wp InI64) : (pop2push1 s f).wp StackOk := by
  unfold pop2push1
  simp only [Res.bind_eq_bind, Res.wp_bind']
  apply pop2_ok s h; intro t a b ht ha hb _
  try simp only [Res.wp_bind']
  apply Res.wp_mono (hf a b ha hb); intro x hx
  exact push_ok' t x ht hx

theorem pop1push1_ok (s : Stack) (f : Int → Res Err Int) (h : StackOk s)
    (hf : ∀ a, InI64 a → (f a).wp InI64) : (pop1push1 s f).wp StackOk := by
  unfold pop1push1
  simp only [Res.bind_eq_bind, Res.wp_bind']
  apply pop_ok s h; intro t a ht ha _
  try simp only [Res.wp_bind']
  apply Res.wp_mono (hf a ha); intro x hx
  exact push_ok' t x ht hx

/-! ### memory -/

theorem alloc_ok (m : Memory) (w : Int) (h : MemOk m) (Q : Memory → Prop)
    (hQ : ∀ n : Nat, w = n → m.length + n ≤ 10240 → MemOk (m ++ List.replicate n 0) → Q (m ++ List.replicate n 0)) :
    (Memory.alloc m w).wp Q := by
  unfold Memory.alloc
  split
  · simp
  · simp only []
    split
    · simp
    · split
      · simp
      · rename_i h0 _ hlim
        have := memLimit_eq
        simp only [Res.wp_ok]
        apply hQ w.toNat (by omega) (by omega)
        exact ⟨by simp; omega, AllI64_append.mpr ⟨h.typed, AllI64_replicate _⟩⟩

theorem memStore_ok (m : Memory) (a w : Int) (h : MemOk m) (hw : InI64 w) : (Memory.store m a w).wp MemOk := by
  unfold Memory.store
  split
  · simp
  · split
    · simp only [Res.wp_ok]; exact ⟨by simpa using h.len, AllI64_set _ _ h.typed hw⟩
    · simp

theorem memLoad_ok (m : Memory) (a : Int) (h : AllI64 m) : (Memory.load m a).wp InI64 := by
  unfold Memory.load
  split
  · simp
  · split
    · rename_i w hw; simp only [Res.wp_ok]; exact AllI64_getElem? h hw
    · simp

theorem copyFromSlice_wp (m : Memory) (a : Nat) (vs : List Int) (Q : Memory → Prop)
    (h1 : a + vs.length ≤ m.length) (hQ : Q (m.take a ++ vs ++ m.drop (a + vs.length))) :
    (Memory.copyFromSlice m a vs).wp Q := by
  unfold Memory.copyFromSlice; rw [if_pos h1]; exact hQ

theorem storeRange_ok (m : Memory) (a : Int) (vs : List Int) (h : MemOk m) (hv : AllI64 vs) (Q : Memory → Prop)
    (hQ : ∀ m', MemOk m' → m'.length = m.length → 0 ≤ a → a.toNat + vs.length ≤ m.length → Q m') :
    (Memory.storeRange m a vs).wp Q := by
  unfold Memory.storeRange
  split
  · simp
  · simp only []
    split
    · simp
    · split
      · simp
      · rename_i h0 _ hend
        apply copyFromSlice_wp
        · omega
        · apply hQ _ _ _ (by omega) (by omega)
          · refine ⟨?_, AllI64_append.mpr ⟨AllI64_append.mpr ⟨AllI64_take _ h.typed, hv⟩, AllI64_drop _ h.typed⟩⟩
            have := h.len
            simp; omega
          · simp; omega

theorem loadRange_ok (m : Memory) (a sz : Int) (h : AllI64 m) (Q : List Int → Prop)
    (hQ : ∀ ws, AllI64 ws → ws.length ≤ m.length → Q ws) : (Memory.loadRange m a sz).wp Q := by
  unfold Memory.loadRange
  split
  · simp
  · split
    · simp
    · simp only []
      split
      · simp
      · split
        · simp
        · simp only [Res.wp_ok]
          apply hQ _ (AllI64_take _ (AllI64_drop _ h))
          simp; omega

theorem free_ok (m : Memory) (a : Int) (h : MemOk m) : (Memory.free m a).wp MemOk := by
  unfold Memory.free
  split
  · simp
  · split
    · simp
    · simp only [Res.wp_ok]
      exact ⟨by have := h.len; simp; omega, AllI64_take _ h.typed⟩

/-! ### ALU and predicates -/

theorem alu_add_ok (a b : Int) : (Alu.add a b).wp InI64 := by unfold Alu.add; split <;> simp [*]
theorem alu_sub_ok (a b : Int) : (Alu.sub a b).wp InI64 := by unfold Alu.sub; split <;> simp [*]
theorem alu_mul_ok (a b : Int) : (Alu.mul a b).wp InI64 := by unfold Alu.mul; split <;> simp [*]
theorem alu_div_ok (a b : Int) (ha : InI64 a) (hb : InI64 b) : (Alu.div a b).wp InI64 := by
  unfold Alu.div; split
  · simp
  · rename_i h; simp only [Res.wp_ok]; exact tdiv_inI64 ha hb h
theorem alu_mod_ok (a b : Int) (ha : InI64 a) : (Alu.mod a b).wp InI64 := by
  unfold Alu.mod; split
  · simp
  · simp only [Res.wp_ok]; exact tmod_inI64 ha
theorem alu_shl_ok (a b : Int) : (Alu.shl a b).wp InI64 := by
  unfold Alu.shl; split
  · simp only [Res.wp_ok]; exact wrapI64_inI64 _
  · simp
theorem alu_shr_ok (a b : Int) : (Alu.shr a b).wp InI64 := by
  unfold Alu.shr; split
  · simp only [Res.wp_ok]; exact wrapI64_inI64 _
  · simp
theorem alu_shrI_ok (a b : Int) (ha : InI64 a) : (Alu.shrI a b).wp InI64 := by
  unfold Alu.shrI; split
  · simp only [Res.wp_ok]; exact ediv_two_pow_inI64 _ ha
  · simp

theorem eqRange_ok (s : Stack) (h : StackOk s) : (Pred.eqRange s).wp StackOk := by
  unfold Pred.eqRange
  simp only [Res.bind_eq_bind, Res.wp_bind']
  apply pop_ok s h; intro t len ht hlen _
  split
  · exact push_ok' t 1 ht InI64_one
  · split
    · simp
    · rename_i hd
      try simp only [Res.wp_bind']
      apply usizeOr_wp; intro n hn
      try simp only [Res.wp_bind']
      apply push_wp; intro hl
      have ht2 : StackOk (t ++ [len * 2]) :=
        ⟨by simp; have := sizeLimit_eq; omega, AllI64_append.mpr ⟨ht.typed, AllI64_singleton.mpr (by simpa using hd)⟩⟩
      try simp only [Res.wp_bind']
      apply splitLenWords_wp; intro rest ws hs
      have hrest : StackOk rest := by
        have e : rest ++ ws = t := by
          have := congrArg List.dropLast hs
          simpa using this.symm
        subst e
        exact ⟨by have := ht.len; simp at this; omega, (AllI64_append.mp ht.typed).1⟩
      have hws : (ws.length : Int) = len * 2 := by
        have := congrArg List.getLast? hs
        simp at this; omega
      dsimp only
      split
      · omega
      · exact push_ok' rest _ hrest (InI64_boolWord _)

theorem decodeSet_ok (all : List Int) (fuel : Nat) (ws : List Int) : (Pred.decodeSet all fuel ws).wp (fun _ => True) := by
  induction fuel generalizing ws with
  | zero => simp [Pred.decodeSet]
  | succ f ih =>
    unfold Pred.decodeSet
    split
    · simp
    · simp only []
      split
      · simp
      · split
        · simp
        · rw [Res.wp_bind']
          apply Res.wp_mono (ih _); intro items _; simp

theorem eqSet_ok (s : Stack) (h : StackOk s) : (Pred.eqSet s).wp StackOk := by
  unfold Pred.eqSet
  simp only [Res.bind_eq_bind, Res.wp_bind']
  apply splitLenWords_ok s h; intro rest rhs hr _ _
  try simp only [Res.wp_bind']
  apply splitLenWords_ok rest hr; intro rest2 lhs hr2 _ _
  try simp only [Res.wp_bind']
  apply Res.wp_mono (decodeSet_ok lhs _ lhs); intro l _
  try simp only [Res.wp_bind']
  apply Res.wp_mono (decodeSet_ok rhs _ rhs); intro r _
  exact push_ok' rest2 _ hr2 (InI64_boolWord _)

/-! ### repeat -/

theorem SlotOk_of_mem_dropLast {r : List Slot} (h : ∀ s ∈ r, SlotOk s) : ∀ s ∈ r.dropLast, SlotOk s :=
  fun s hs => h s (List.dropLast_subset r hs)

theorem repeatStart_ok (pc : Nat) (s : Stack) (r : List Slot) (h : StackOk s) (hr : r.length ≤ 4096)
    (hrt : ∀ x ∈ r, SlotOk x) :
    (Repeat.start pc s r).wp (fun p => StackOk p.1 ∧ p.2.length ≤ 4096 ∧ ∀ x ∈ p.2, SlotOk x) := by
  unfold Repeat.start
  simp only [Res.bind_eq_bind, Res.wp_bind']
  apply pop2_ok s h; intro t num cu ht hnum _ _
  try simp only []
  split
  · simp
  · rename_i up _
    split
    · simp
    · simp only [Res.wp_bind']
      have hsl := sizeLimit_eq
      cases up
      · simp only [Bool.false_eq_true, if_false]
        unfold Repeat.repeatFrom
        split
        · simp
        · simp only [Res.wp_ok, Res.pure_eq_ok]
          refine ⟨ht, by simp; omega, ?_⟩
          intro x hx
          simp only [List.mem_append, List.mem_singleton] at hx
          rcases hx with hx | rfl
          · exact hrt x hx
          · exact ⟨hnum, trivial⟩
      · simp only [if_true]
        unfold Repeat.repeatTo
        split
        · simp
        · simp only [Res.wp_ok, Res.pure_eq_ok]
          refine ⟨ht, by simp; omega, ?_⟩
          intro x hx
          simp only [List.mem_append, List.mem_singleton] at hx
          rcases hx with hx | rfl
          · exact hrt x hx
          · exact ⟨InI64_zero, hnum⟩

theorem stepEnd_ok (r : List Slot) (hr : r.length ≤ 4096) (hrt : ∀ x ∈ r, SlotOk x) :
    (Repeat.stepEnd r).wp (fun p => p.1.length ≤ 4096 ∧ ∀ x ∈ p.1, SlotOk x) := by
  unfold Repeat.stepEnd
  split
  · simp
  · rename_i slot hslot
    have hmem : slot ∈ r := List.mem_of_getLast? hslot
    have hso := hrt slot hmem
    have hne : r ≠ [] := by intro e; subst e; simp at hslot
    have hdl : r.dropLast.length + 1 = r.length := by
      simp; have := List.length_pos_iff.mpr hne; omega
    split
    · rename_i limit hlim
      have hl : InI64 limit := by have := hso.2; rw [hlim] at this; exact this
      have hc := hso.1
      split
      · simp only [Res.wp_ok]; exact ⟨by omega, SlotOk_of_mem_dropLast hrt⟩
      · rename_i hlt
        have : InI64 (slot.counter + 1) := by
          unfold Repeat.satSub1 at hlt
          unfold InI64 i64Min at *
          split at hlt <;> omega
        rw [if_neg (by simpa using this)]
        simp only [Res.wp_ok]
        refine ⟨by simp; omega, ?_⟩
        intro x hx
        simp only [List.mem_append, List.mem_singleton] at hx
        rcases hx with hx | rfl
        · exact SlotOk_of_mem_dropLast hrt x hx
        · exact ⟨this, by simp only [hlim]; exact hl⟩
    · rename_i hlim
      have hc := hso.1
      split
      · simp only [Res.wp_ok]; exact ⟨by omega, SlotOk_of_mem_dropLast hrt⟩
      · rename_i hlt
        have : InI64 (slot.counter - 1) := by unfold InI64 at *; omega
        rw [if_neg (by simpa using this)]
        simp only [Res.wp_ok]
        refine ⟨by simp; omega, ?_⟩
        intro x hx
        simp only [List.mem_append, List.mem_singleton] at hx
        rcases hx with hx | rfl
        · exact SlotOk_of_mem_dropLast hrt x hx
        · exact ⟨this, by simp only [hlim]⟩

theorem counter_ok (r : List Slot) (hrt : ∀ x ∈ r, SlotOk x) : (Repeat.counter r).wp InI64 := by
  unfold Repeat.counter
  split
  · simp
  · rename_i slot hslot
    simp only [Res.wp_ok]
    exact (hrt slot (List.mem_of_getLast? hslot)).1

/-! ### control flow -/

theorem jumpIf_ok (s : Stack) (pc : Nat) (h : StackOk s) : (Tcf.jumpIf s pc).wp (fun p => StackOk p.1) := by
  unfold Tcf.jumpIf
  simp only [Res.bind_eq_bind, Res.wp_bind']
  apply pop2_ok s h; intro t d c ht _ _ _
  try simp only []
  split
  · simp
  · simpa using ht
  · try simp only []
    split
    · simp
    · split
      · split <;> simp [ht]
      · split <;> simp [ht]

theorem haltIf_ok (s : Stack) (h : StackOk s) : (Tcf.haltIf s).wp (fun p => StackOk p.1) := by
  unfold Tcf.haltIf
  simp only [Res.bind_eq_bind, Res.wp_bind']
  apply pop_ok s h; intro t c ht _ _
  try simp only []
  split
  · simp
  · simpa using ht

theorem panicIf_ok (s : Stack) (h : StackOk s) : (Tcf.panicIf s).wp StackOk := by
  unfold Tcf.panicIf
  simp only [Res.bind_eq_bind, Res.wp_bind']
  apply pop_ok s h; intro t c ht _ _
  try simp only []
  split
  · simp
  · split
    · simp
    · simpa using ht

/-! ### environment typing -/

theorem wordsOfBytes_allI64 : ∀ (bs : List Nat), AllBytes bs → AllI64 (wordsOfBytes bs)
  | a :: b :: c :: d :: e :: f :: g :: h :: rest, hb => by
    unfold wordsOfBytes
    rw [AllI64_cons]
    refine ⟨wordOfBytes_inI64 _ (fun x hx => hb x (by simp at hx ⊢; omega)), wordsOfBytes_allI64 rest (fun x hx => hb x (by simp [hx]))⟩
  | [], _ => by simp [wordsOfBytes, AllI64_nil]
  | [_], _ => by simp [wordsOfBytes, AllI64_nil]
  | [_, _], _ => by simp [wordsOfBytes, AllI64_nil]
  | [_, _, _], _ => by simp [wordsOfBytes, AllI64_nil]
  | [_, _, _, _], _ => by simp [wordsOfBytes, AllI64_nil]
  | [_, _, _, _, _], _ => by simp [wordsOfBytes, AllI64_nil]
  | [_, _, _, _, _, _], _ => by simp [wordsOfBytes, AllI64_nil]
  | [_, _, _, _, _, _, _], _ => by simp [wordsOfBytes, AllI64_nil]

theorem wordsOfBytes_length_le : ∀ (bs : List Nat), (wordsOfBytes bs).length * 8 ≤ bs.length
  | a :: b :: c :: d :: e :: f :: g :: h :: rest => by
    unfold wordsOfBytes
    have := wordsOfBytes_length_le rest
    simp only [List.length_cons]; omega
  | [] => by simp [wordsOfBytes]
  | [_] => by simp [wordsOfBytes]
  | [_, _] => by simp [wordsOfBytes]
  | [_, _, _] => by simp [wordsOfBytes]
  | [_, _, _, _] => by simp [wordsOfBytes]
  | [_, _, _, _, _] => by simp [wordsOfBytes]
  | [_, _, _, _, _, _] => by simp [wordsOfBytes]
  | [_, _, _, _, _, _, _] => by simp [wordsOfBytes]

/-- typing facts about the environment (what Rust's types guarantee) plus the one documented
precondition of `Access`: the solution index is in range -/
structure EnvOk (env : Env) : Prop where
  index : env.index < env.solutions.length
  dataTyped : ∀ sol ∈ env.solutions, ∀ slot ∈ sol.data, AllI64 slot
  addrBytes : ∀ sol ∈ env.solutions, AllBytes sol.contract ∧ AllBytes sol.predicate
  preTyped : ∀ c k n vs, env.pre c k n = .ok vs → ∀ v ∈ vs, AllI64 v
  postTyped : ∀ c k n vs, env.post c k n = .ok vs → ∀ v ∈ vs, AllI64 v
  shaBytes : ∀ x, AllBytes (env.sha256 x)
  keyBytes : ∀ h s i k, env.secpRecover h s i = .key k → AllBytes k

theorem thisSolution_ok (env : Env) (he : EnvOk env) (Q : Solution → Prop)
    (hQ : ∀ sol, sol ∈ env.solutions → Q sol) : (thisSolution env).wp Q := by
  unfold thisSolution
  have := he.index
  rw [List.getElem?_eq_getElem this]
  simp only [Res.wp_ok]
  exact hQ _ (List.getElem_mem this)

/-! ### access -/

theorem predicateData_ok (data : List (List Int)) (s : Stack) (h : StackOk s) (hd : ∀ slot ∈ data, AllI64 slot) :
    (Access.predicateData data s).wp StackOk := by
  unfold Access.predicateData
  simp only [Res.bind_eq_bind, Res.wp_bind', Res.wp_mapErr]
  apply pop_ok s h; intro t1 len h1 _ _
  try simp only [Res.wp_bind', Res.wp_mapErr]
  apply pop_ok t1 h1; intro t2 vix h2 _ _
  try simp only [Res.wp_bind', Res.wp_mapErr]
  apply pop_ok t2 h2; intro t3 six h3 _ _
  try simp only [Res.wp_bind', Res.wp_mapErr]
  apply usizeOr_wp; intro n _
  split
  · simp
  · try simp only []
    split
    · simp
    · split
      · simp
      · rename_i slot hslot
        split
        · simp
        · exact extend_ok' t3 _ h3 (AllI64_take _ (AllI64_drop _ (hd slot (List.mem_of_getElem? hslot))))

theorem predicateDataLen_ok (data : List (List Int)) (s : Stack) (h : StackOk s) :
    (Access.predicateDataLen data s).wp StackOk := by
  unfold Access.predicateDataLen
  simp only [Res.bind_eq_bind, Res.wp_bind', Res.wp_mapErr]
  apply pop_ok s h; intro t six ht _ hl
  try simp only [Res.wp_bind', Res.wp_mapErr]
  apply usizeOr_wp; intro n _
  split
  · simp
  · rename_i slot _
    split
    · simp
    · rename_i hlen
      have hlt : t.length < Stack.sizeLimit := by have := h.len; have := sizeLimit_eq; omega
      rw [push_ok _ hlt]
      simp only [Res.wp_ok]
      refine ⟨by simp; have := h.len; omega, AllI64_append.mpr ⟨ht.typed, AllI64_singleton.mpr ?_⟩⟩
      unfold InI64 i64Max at *; omega

theorem predicateDataSlots_ok (data : List (List Int)) (s : Stack) (h : StackOk s) :
    (Access.predicateDataSlots data s).wp StackOk := by
  unfold Access.predicateDataSlots
  split
  · simp
  · apply push_ok' _ _ h
    unfold InI64 i64Max at *; omega

theorem predicateExists_ok (env : Env) (s : Stack) (h : StackOk s) : (Access.predicateExists env s).wp StackOk := by
  unfold Access.predicateExists
  simp only [Res.bind_eq_bind, Res.wp_bind']
  apply pop4_ok s h; intro t ws ht _ _ _
  exact push_ok' t _ ht (InI64_boolWord _)

/-! ### crypto -/

theorem popBytes_ok (s : Stack) (h : StackOk s) (Q : Stack × List Nat → Prop)
    (hQ : ∀ t bs, StackOk t → Q (t, bs)) : (Crypto.popBytes s).wp Q := by
  unfold Crypto.popBytes
  simp only [Res.bind_eq_bind, Res.wp_bind']
  apply pop_ok s h; intro t lw ht _ _
  try simp only [Res.wp_bind']
  apply usizeOr_wp; intro n _
  try simp only [Res.wp_bind']
  apply splitLen_ok t _ ht; intro rest ws hr _ _ _
  simp only [Res.wp_ok, Res.pure_eq_ok]
  exact hQ _ _ hr

theorem word4_typed (env : Env) (he : EnvOk env) (x : List Nat) : AllI64 (word4OfBytes32 (env.sha256 x)) :=
  wordsOfBytes_allI64 _ (he.shaBytes x)

theorem sha256_ok (env : Env) (he : EnvOk env) (s : Stack) (h : StackOk s) : (Crypto.sha256 env s).wp StackOk := by
  unfold Crypto.sha256
  simp only [Res.bind_eq_bind, Res.wp_bind']
  apply popBytes_ok s h; intro t bs ht
  exact extend_ok' t _ ht (word4_typed env he bs)

theorem verifyEd_ok (env : Env) (s : Stack) (h : StackOk s) : (Crypto.verifyEd25519 env s).wp StackOk := by
  unfold Crypto.verifyEd25519
  simp only [Res.bind_eq_bind, Res.wp_bind']
  apply pop4_ok s h; intro t1 pk h1 _ _ _
  try simp only [Res.wp_bind']
  apply pop8_ok t1 h1; intro t2 sg h2 _ _ _
  try simp only [Res.wp_bind']
  apply popBytes_ok t2 h2; intro t3 bs h3
  try simp only []
  split
  · simp
  · exact push_ok' t3 _ h3 (InI64_boolWord _)

theorem recover_ok (env : Env) (he : EnvOk env) (s : Stack) (h : StackOk s) :
    (Crypto.recoverSecp256k1 env s).wp StackOk := by
  unfold Crypto.recoverSecp256k1
  simp only [Res.bind_eq_bind, Res.wp_bind']
  apply pop_ok s h; intro t0 bit h0 _ _
  try simp only [Res.wp_bind']
  apply pop8_ok t0 h0; intro t1 sg h1 _ _ _
  try simp only [Res.wp_bind']
  apply pop4_ok t1 h1; intro t2 hash h2 _ _ _
  try simp only []
  split
  · simp
  · split
    · simp
    · split
      · simp
      · apply extend_ok' t2 _ h2
        simp [AllI64_cons, InI64_zero, AllI64_nil]
      · rename_i k hk
        have hkb := he.keyBytes _ _ _ _ hk
        try simp only [Res.wp_bind']
        apply extend_wp; intro hl
        have hw4 : AllI64 (word4OfBytes32 (k.take 32)) :=
          wordsOfBytes_allI64 _ (fun x hx => hkb x (List.mem_of_mem_take hx))
        apply push_ok'
        · refine ⟨?_, AllI64_append.mpr ⟨h2.typed, hw4⟩⟩
          have := sizeLimit_eq
          rcases hl with hl | hl
          · rw [hl]; simpa using h2.len
          · simpa using (by omega : t2.length + (word4OfBytes32 (k.take 32)).length ≤ 4096)
        · apply wordOfBytes_inI64
          intro x hx
          simp only [List.mem_cons, List.not_mem_nil, or_false] at hx
          rcases hx with rfl | rfl | rfl | rfl | rfl | rfl | rfl | rfl <;> try omega
          by_cases h32 : 32 < k.length
          · rw [List.getD_eq_getElem?_getD, List.getElem?_eq_getElem h32]
            exact hkb _ (List.getElem_mem h32)
          · rw [List.getD_eq_getElem?_getD, List.getElem?_eq_none (by omega)]; simp

/-! ### state reads -/

theorem writeLoop_ok (vs : List (List Int)) : ∀ (mem : Memory) (ma va : Int), MemOk mem → (∀ v ∈ vs, AllI64 v) →
    InI64 ma → InI64 va → 0 ≤ ma →
    (StateRead.writeLoop mem ma va vs).wp (fun m => MemOk m ∧ m.length = mem.length) := by
  induction vs with
  | nil => intro mem ma va hm _ _ _ _; simp [StateRead.writeLoop, hm]
  | cons v vs ih =>
    intro mem ma va hm hv hma hva hma0
    unfold StateRead.writeLoop
    split
    · simp
    · rename_i hvl
      simp only [Res.bind_eq_bind, Res.wp_bind']
      have hvlen : InI64 (v.length : Int) := by unfold InI64 i64Max at *; omega
      apply storeRange_ok mem ma _ hm (by simp [AllI64_cons, hva, hvlen, AllI64_nil])
      intro m1 hm1 hl1 _ hfit1
      try simp only [Res.wp_bind']
      apply storeRange_ok m1 va v hm1 (hv v (by simp))
      intro m2 hm2 hl2 hva0 hfit2
      have hb := hm.len
      have h1 : InI64 (va + (v.length : Int)) := by unfold InI64; omega
      have h2 : InI64 (ma + 2) := by
        simp only [List.length_cons, List.length_nil] at hfit1
        unfold InI64; omega
      rw [if_neg (by simpa using h1), if_neg (by simpa using h2)]
      apply Res.wp_mono (ih m2 (ma + 2) _ hm2 (fun x hx => hv x (by simp [hx])) h2 h1 (by omega))
      intro m3 ⟨hm3, hl3⟩
      exact ⟨hm3, by omega⟩

theorem writeValues_ok (a : Nat) (vs : List (List Int)) (mem : Memory) (hm : MemOk mem) (hv : ∀ v ∈ vs, AllI64 v) :
    (StateRead.writeValuesToMemory a vs mem).wp (fun m => MemOk m ∧ m.length = mem.length) := by
  unfold StateRead.writeValuesToMemory
  split
  · simp
  · try simp only []
    split
    · simp
    · split
      · simp
      · split
        · simp
        · rename_i h1 h2 h3 h4
          apply writeLoop_ok vs mem _ _ hm hv
          · unfold InI64 i64Max at *; omega
          · simpa using h4
          · omega

theorem viewRead_ok (view : StateView) (c : List Nat) (k : List Int) (n : Nat)
    (ht : ∀ c k n vs, view c k n = .ok vs → ∀ v ∈ vs, AllI64 v) (Q : List (List Int) → Prop)
    (hQ : ∀ vs, (∀ v ∈ vs, AllI64 v) → Q vs) : (StateRead.viewRead view c k n).wp Q := by
  unfold StateRead.viewRead
  split
  · rename_i vs hvs; simp only [Res.wp_ok]; exact hQ vs (ht _ _ _ _ hvs)
  · simp

theorem popKeyRangeArgs_ok (s : Stack) (h : StackOk s) (Q : Stack × List Int × Nat → Prop)
    (hQ : ∀ t k n, StackOk t → Q (t, k, n)) : (StateRead.popKeyRangeArgs s).wp Q := by
  unfold StateRead.popKeyRangeArgs
  simp only [Res.bind_eq_bind, Res.wp_bind']
  apply pop_ok s h; intro t nw ht _ _
  try simp only [Res.wp_bind']
  apply usizeOr_wp; intro n _
  try simp only [Res.wp_bind']
  apply splitLenWords_ok t ht; intro rest key hr _ _
  simp only [Res.wp_ok, Res.pure_eq_ok]
  exact hQ _ _ _ hr

theorem keyRange_ok (view : StateView) (c : List Nat) (s : Stack) (mem : Memory) (h : StackOk s) (hm : MemOk mem)
    (ht : ∀ c k n vs, view c k n = .ok vs → ∀ v ∈ vs, AllI64 v) :
    (StateRead.keyRange view c s mem).wp (fun p => StackOk p.1 ∧ MemOk p.2) := by
  unfold StateRead.keyRange StateRead.popMemoryAddress
  simp only [Res.bind_eq_bind, Res.wp_bind']
  apply pop_ok s h; intro t aw ht' _ _
  try simp only [Res.wp_bind']
  apply usizeOr_wp; intro a _
  try simp only [Res.wp_ok, Res.pure_eq_ok]
  apply popKeyRangeArgs_ok t ht'; intro t2 k n ht2
  try simp only [Res.wp_bind']
  apply viewRead_ok view c k n ht; intro vs hvs
  try simp only [Res.wp_bind']
  apply Res.wp_mono (writeValues_ok a vs mem hm hvs); intro m ⟨hm', _⟩
  exact ⟨ht2, hm'⟩

theorem keyRangeExt_ok (view : StateView) (s : Stack) (mem : Memory) (h : StackOk s) (hm : MemOk mem)
    (ht : ∀ c k n vs, view c k n = .ok vs → ∀ v ∈ vs, AllI64 v) :
    (StateRead.keyRangeExt view s mem).wp (fun p => StackOk p.1 ∧ MemOk p.2) := by
  unfold StateRead.keyRangeExt StateRead.popMemoryAddress
  simp only [Res.bind_eq_bind, Res.wp_bind']
  apply pop_ok s h; intro t aw ht' _ _
  try simp only [Res.wp_bind']
  apply usizeOr_wp; intro a _
  try simp only [Res.wp_ok, Res.pure_eq_ok]
  apply popKeyRangeArgs_ok t ht'; intro t2 k n ht2
  try simp only [Res.wp_bind']
  apply pop4_ok t2 ht2; intro t3 addr ht3 _ _ _
  try simp only [Res.wp_bind']
  apply viewRead_ok view _ k n ht; intro vs hvs
  try simp only [Res.wp_bind']
  apply Res.wp_mono (writeValues_ok a vs mem hm hvs); intro m ⟨hm', _⟩
  exact ⟨ht3, hm'⟩

end Essential
