/-
The machine invariant is preserved by every op (`stepOp_inv`), by compute, and by the exec
loop; no `.panic` branch of the model is reachable.  Aborts (`Res.abort`) only arise from
the explicit resource model: compute breadth above `env.maxBreadth`, or model fuel.
-/
import Essential.Lemmas.VmInv
import Essential.Lemmas.Asm

set_option linter.unusedSimpArgs false
namespace Essential
open Spec

/-- what is assumed of the executor used for compute children -/
def ChildSpec (child : ChildExec) (env : Env) : Prop :=
  ∀ vm, VmInv 1 vm → (child env vm).wpA (fun r => VmInv 1 r.2)

/-- physical bound that keeps `memory_to_alloc` (an `i64` sum) from overflowing -/
def BreadthOk (env : Env) : Prop := env.maxBreadth ≤ 4294967296

theorem runChildren_ok (child : ChildExec) (env : Env) (hc : ChildSpec child env)
    (mk : Nat → Res Err Vm) (is : List Nat) (hmk : ∀ i ∈ is, (mk i).wp (VmInv 1)) :
    (runChildren child env mk is).wpA (fun rs => (∀ r ∈ rs, VmInv 1 r.2) ∧ rs.length = is.length) := by
  induction is with
  | nil => simp [runChildren]
  | cons i is ih =>
    unfold runChildren
    have h1 := hmk i (by simp)
    cases hm : mk i with
    | err e => simp
    | panic m => rw [hm] at h1; simp at h1
    | abort m => rw [hm] at h1; simp at h1
    | ok vm =>
      rw [hm] at h1
      simp only [Res.wp_ok] at h1
      have h2 := hc vm h1
      simp only []
      cases hch : child env vm with
      | err e => simp
      | panic m => rw [hch] at h2; simp at h2
      | abort m => simp
      | ok r =>
        rw [hch] at h2
        simp only [Res.wpA_ok] at h2
        have h3 := ih (fun j hj => hmk j (by simp [hj]))
        simp only []
        cases hrs : runChildren child env mk is with
        | err e => simp
        | panic m => rw [hrs] at h3; simp at h3
        | abort m => simp
        | ok rs =>
          rw [hrs] at h3
          simp only [Res.wpA_ok] at h3 ⊢
          refine ⟨?_, by simp [h3.2]⟩
          intro x hx
          simp only [List.mem_cons] at hx
          rcases hx with rfl | hx
          · exact h2
          · exact h3.1 x hx

theorem storeChildren_ok (rs : List (Nat × Vm)) : ∀ (m : Memory) (ptr : Int) (pc : Nat) (halt : Bool),
    MemOk m → (∀ r ∈ rs, VmInv 1 r.2) → 0 ≤ ptr →
    ptr + ((rs.map fun r => r.2.memory.length).sum : Nat) = m.length →
    (storeChildren m ptr pc halt rs).wp (fun p => MemOk p.1 ∧ p.1.length = m.length) := by
  induction rs with
  | nil => intro m ptr pc halt hm _ _ _; simp [storeChildren, hm]
  | cons r rs ih =>
    intro m ptr pc halt hm hr hp hsum
    unfold storeChildren
    simp only [List.map_cons, List.sum_cons, Int.natCast_add] at hsum
    have hrm := (hr r (by simp)).memory
    have hfit : ptr.toNat + r.2.memory.length ≤ m.length := by omega
    have hst : (Memory.storeRange m ptr r.2.memory).wp
        (fun m' => MemOk m' ∧ m'.length = m.length) := by
      apply storeRange_ok m ptr _ hm hrm.typed
      intro m' hm' hl _ _; exact ⟨hm', hl⟩
    -- the store cannot fail: it fits by the pointer invariant
    have hne : ∀ e, Memory.storeRange m ptr r.2.memory ≠ .err e := by
      intro e he
      unfold Memory.storeRange at he
      have hb := hm.len
      simp only [show ¬ ptr < 0 by omega, if_false] at he
      split at he
      · unfold usizeMax at *; omega
      · split at he
        · omega
        · unfold Memory.copyFromSlice at he; rw [if_pos hfit] at he; cases he
    cases hs : Memory.storeRange m ptr r.2.memory with
    | err e => exact absurd hs (hne e)
    | panic msg => rw [hs] at hst; simp at hst
    | abort msg => rw [hs] at hst; simp at hst
    | ok m' =>
      rw [hs] at hst
      simp only [Res.wp_ok] at hst
      have hb := hm.len
      have hin : InI64 (ptr + (r.2.memory.length : Int)) := by unfold InI64; omega
      simp only [hin, not_true_eq_false, if_false]
      apply Res.wp_mono (ih m' _ _ _ hst.1 (fun x hx => hr x (by simp [hx])) (by omega) (by omega))
      intro p ⟨hp1, hp2⟩
      exact ⟨hp1, by omega⟩

theorem sum_le_of_forall_le (l : List Nat) (b : Nat) (h : ∀ x ∈ l, x ≤ b) : l.sum ≤ l.length * b := by
  induction l with
  | nil => simp
  | cons x xs ih =>
    simp only [List.sum_cons, List.length_cons]
    have := h x (by simp)
    have := ih (fun y hy => h y (by simp [hy]))
    rw [Nat.add_mul]; omega

theorem computeEffects_ok (mem : Memory) (pc : Nat) (halt : Bool) (rs : List (Nat × Vm))
    (hm : MemOk mem) (hr : ∀ r ∈ rs, VmInv 1 r.2) (hn : rs.length ≤ 4294967296) :
    (computeEffects mem pc halt rs).wp (fun p => MemOk p.1) := by
  unfold computeEffects
  have hsum : (rs.map fun r => r.2.memory.length).sum ≤ rs.length * 10240 := by
    have := sum_le_of_forall_le (rs.map fun r => r.2.memory.length) 10240 (by
      intro x hx
      simp only [List.mem_map] at hx
      obtain ⟨r, hr', rfl⟩ := hx
      exact (hr r hr').memory.len)
    simpa using this
  have hb := hm.len
  simp only []
  rw [if_neg (by unfold i64Max; omega), if_neg (by unfold i64Max; omega), Res.wp_bind']
  apply alloc_ok mem _ hm
  intro n hn' hfit hm'
  have hn'' : n = (rs.map fun r => r.2.memory.length).sum := by omega
  apply Res.wp_mono (storeChildren_ok rs _ (mem.length : Int) pc halt hm' hr (by omega) (by
    simp only [List.length_append, List.length_replicate, Int.natCast_add]; omega))
  intro p ⟨hp, _⟩; exact hp

theorem compute_ok (child : ChildExec) (d : Nat) (env : Env) (hc : d = 0 → ChildSpec child env) (he : EnvOk env) (hb : BreadthOk env)
    (vm : Vm) (hv : VmInv d vm) (hpc : vm.pc < isizeMax) : (compute child env vm).wpA (fun r => VmInv d r.1) := by
  unfold compute
  simp only [Res.bind_eq_bind, Res.wpA_bind', Res.wpA_mapErr]
  apply Res.wp_wpA
  apply pop_ok vm.stack hv.stack; intro stack breadth hst hbr _
  try simp only []
  split
  · simp
  · split
    · simp
    · rename_i hb1 hdepth
      split
      · simp [Res.wp]
      · rename_i hmax
        have hd0 : vm.parentMemory.length = 0 := by
          have : Consts.maxComputeDepth = 1 := rfl
          omega
        have hdz : d = 0 := by have := hv.depth; omega
        have hc := hc hdz
        have hmk : ∀ i ∈ List.range breadth.toNat, (childVm vm stack i).wp (VmInv 1) := by
          intro i hi
          unfold childVm
          rw [Res.wp_bind']
          have hi' : InI64 (i : Int) := by
            have := List.mem_range.mp hi
            unfold InI64 at *; omega
          apply Res.wp_mono (push_ok' stack (i : Int) hst hi')
          intro st hst'
          rw [if_neg (by unfold usizeMax isizeMax at *; omega)]
          simp only [Res.wp_ok]
          refine ⟨hst', ⟨by simp, AllI64_nil⟩, hv.repLen, hv.repTyped, by simp [hd0], by omega, ?_⟩
          intro pm hpm
          simp only [List.mem_append, List.mem_singleton] at hpm
          rcases hpm with hpm | rfl
          · exact hv.parents pm hpm
          · exact hv.memory
        rw [Res.wpA_bind']
        apply Res.wpA_mono (runChildren_ok child env hc _ _ hmk)
        intro rs ⟨hrs, hlen⟩
        split
        · simp
        · rw [Res.wpA_bind']
          apply Res.wp_wpA
          have hn : rs.length ≤ 4294967296 := by
            rw [hlen, List.length_range]; unfold BreadthOk at hb; omega
          apply Res.wp_mono (computeEffects_ok vm.memory vm.pc vm.halt rs hv.memory hrs hn)
          intro p hp
          simp only [Res.wpA_ok, Res.pure_eq_ok]
          exact ⟨hst, hp, hv.repLen, hv.repTyped, hv.depth, hv.depthLe, hv.parents⟩

theorem stk_ok {d : Nat} (vm : Vm) (hv : VmInv d vm) (r : Res Err Stack) (h : r.wp StackOk) :
    (stk vm r).wp (fun p => VmInv d p.1) := by
  unfold stk
  rw [Res.wp_bind']
  apply Res.wp_mono h; intro s hs
  simp only [Res.wp_ok]
  exact ⟨hs, hv.memory, hv.repLen, hv.repTyped, hv.depth, hv.depthLe, hv.parents⟩

theorem VmInv.withStack {d : Nat} {vm : Vm} (hv : VmInv d vm) {s : Stack} (hs : StackOk s) : VmInv d { vm with stack := s } :=
  ⟨hs, hv.memory, hv.repLen, hv.repTyped, hv.depth, hv.depthLe, hv.parents⟩

theorem VmInv.withStackMem {d : Nat} {vm : Vm} (hv : VmInv d vm) {s : Stack} {m : Memory} (hs : StackOk s) (hm : MemOk m) :
    VmInv d { vm with stack := s, memory := m } :=
  ⟨hs, hm, hv.repLen, hv.repTyped, hv.depth, hv.depthLe, hv.parents⟩

theorem cmp_ok (s : Stack) (h : StackOk s) (f : Int → Int → Bool) :
    (pop2push1 s fun a b => .ok (boolWord (f a b))).wp StackOk :=
  pop2push1_ok s _ h (fun a b _ _ => by simp only [Res.wp_ok]; exact InI64_boolWord _)

theorem bool2_ok (f : Int → Int → Bool) : ∀ a b : Int, InI64 a → InI64 b →
    (Res.ok (boolWord (f a b)) : Res Err Int).wp InI64 :=
  fun _ _ _ _ => by simp only [Res.wp_ok]; exact InI64_boolWord _

theorem memOps_ok {d : Nat} (vm : Vm) (hv : VmInv d vm) (r : Res Err (Stack × Memory)) (h : r.wp (fun p => StackOk p.1 ∧ MemOk p.2)) :
    (r.bind fun (s, m) => (Res.ok ({ vm with stack := s, memory := m }, Flow.next) : Res Err (Vm × Flow))).wp
      (fun p => VmInv d p.1) := by
  rw [Res.wp_bind']
  apply Res.wp_mono h; intro ⟨s, m⟩ ⟨hs, hm⟩
  simp only [Res.wp_ok]
  exact hv.withStackMem hs hm

/-- **every op preserves the machine invariant and never panics** -/
theorem stepOp_inv (child : ChildExec) (d : Nat) (env : Env) (hc : d = 0 → ChildSpec child env) (he : EnvOk env) (hb : BreadthOk env)
    (vm : Vm) (hv : VmInv d vm) (hpc : vm.pc < isizeMax) (op : Op) (hwf : op.WF) :
    (stepOp child env vm op).wpA (fun r => VmInv d r.1) := by
  have hs := hv.stack
  have hm := hv.memory
  cases op with
  | computeCompute => exact compute_ok child d env hc he hb vm hv hpc
  | computeComputeEnd => simp only [stepOp, Res.wpA_ok]; exact hv
  | totalControlFlowHalt => simp only [stepOp, Res.wpA_ok]; exact hv
  -- Stack
  | stackPush w => exact Res.wp_wpA (stk_ok vm hv _ (push_ok' _ w hs (by simpa [Op.WF, Op.imm] using hwf)))
  | stackPop =>
    apply Res.wp_wpA; apply stk_ok vm hv; rw [Res.wp_bind']
    apply pop_ok _ hs; intro t w ht _ _; simpa using ht
  | stackDup =>
    apply Res.wp_wpA; apply stk_ok vm hv; rw [Res.wp_bind']
    apply pop_ok _ hs; intro t w ht hw _
    exact extend_ok' t _ ht (by simp [AllI64_cons, hw, AllI64_nil])
  | stackDupFrom => exact Res.wp_wpA (stk_ok vm hv _ (dupFrom_ok _ hs))
  | stackSwap =>
    apply Res.wp_wpA; apply stk_ok vm hv; rw [Res.wp_bind']
    apply pop2_ok _ hs; intro t a b ht ha hb' _
    exact extend_ok' t _ ht (by simp [AllI64_cons, ha, hb', AllI64_nil])
  | stackSwapIndex => exact Res.wp_wpA (stk_ok vm hv _ (swapIndex_ok _ hs))
  | stackSelect => exact Res.wp_wpA (stk_ok vm hv _ (select_ok _ hs))
  | stackSelectRange => exact Res.wp_wpA (stk_ok vm hv _ (selectRange_ok _ hs))
  | stackRepeat =>
    apply Res.wp_wpA; unfold stepOp; rw [Res.wp_bind']
    apply Res.wp_mono (repeatStart_ok vm.pc _ _ hs hv.repLen hv.repTyped)
    intro ⟨s, r⟩ ⟨h1, h2, h3⟩
    simp only [Res.wp_ok]
    exact ⟨h1, hm, h2, h3, hv.depth, hv.depthLe, hv.parents⟩
  | stackRepeatEnd =>
    apply Res.wp_wpA; unfold stepOp; rw [Res.wp_bind']
    apply Res.wp_mono (stepEnd_ok _ hv.repLen hv.repTyped)
    intro ⟨r, j⟩ ⟨h2, h3⟩
    simp only [Res.wp_ok]
    exact ⟨hs, hm, h2, h3, hv.depth, hv.depthLe, hv.parents⟩
  | stackReserve => exact Res.wp_wpA (stk_ok vm hv _ (reserveZeroed_ok _ hs))
  | stackLoad => exact Res.wp_wpA (stk_ok vm hv _ (load_ok _ hs))
  | stackStore => exact Res.wp_wpA (stk_ok vm hv _ (store_ok _ hs))
  | stackDrop => exact Res.wp_wpA (stk_ok vm hv _ (dropLenWords_ok _ hs))
  -- Pred
  | predEq => exact Res.wp_wpA (stk_ok vm hv _ (pop2push1_ok _ _ hs (bool2_ok _)))
  | predEqRange => exact Res.wp_wpA (stk_ok vm hv _ (eqRange_ok _ hs))
  | predGt => exact Res.wp_wpA (stk_ok vm hv _ (pop2push1_ok _ _ hs (bool2_ok _)))
  | predLt => exact Res.wp_wpA (stk_ok vm hv _ (pop2push1_ok _ _ hs (bool2_ok _)))
  | predGte => exact Res.wp_wpA (stk_ok vm hv _ (pop2push1_ok _ _ hs (bool2_ok _)))
  | predLte => exact Res.wp_wpA (stk_ok vm hv _ (pop2push1_ok _ _ hs (bool2_ok _)))
  | predAnd => exact Res.wp_wpA (stk_ok vm hv _ (pop2push1_ok _ _ hs (bool2_ok _)))
  | predOr => exact Res.wp_wpA (stk_ok vm hv _ (pop2push1_ok _ _ hs (bool2_ok _)))
  | predNot =>
    exact Res.wp_wpA (stk_ok vm hv _ (pop1push1_ok _ _ hs (fun a _ => by simp only [Res.wp_ok]; exact InI64_boolWord _)))
  | predEqSet => exact Res.wp_wpA (stk_ok vm hv _ (eqSet_ok _ hs))
  | predBitAnd =>
    exact Res.wp_wpA (stk_ok vm hv _ (pop2push1_ok _ _ hs (fun a b _ _ => by simp only [Res.wp_ok]; exact wrapI64_inI64 _)))
  | predBitOr =>
    exact Res.wp_wpA (stk_ok vm hv _ (pop2push1_ok _ _ hs (fun a b _ _ => by simp only [Res.wp_ok]; exact wrapI64_inI64 _)))
  -- Alu
  | aluAdd => exact Res.wp_wpA (stk_ok vm hv _ (pop2push1_ok _ _ hs (fun a b _ _ => alu_add_ok a b)))
  | aluSub => exact Res.wp_wpA (stk_ok vm hv _ (pop2push1_ok _ _ hs (fun a b _ _ => alu_sub_ok a b)))
  | aluMul => exact Res.wp_wpA (stk_ok vm hv _ (pop2push1_ok _ _ hs (fun a b _ _ => alu_mul_ok a b)))
  | aluDiv => exact Res.wp_wpA (stk_ok vm hv _ (pop2push1_ok _ _ hs (fun a b ha hb' => alu_div_ok a b ha hb')))
  | aluMod => exact Res.wp_wpA (stk_ok vm hv _ (pop2push1_ok _ _ hs (fun a b ha _ => alu_mod_ok a b ha)))
  | aluShl => exact Res.wp_wpA (stk_ok vm hv _ (pop2push1_ok _ _ hs (fun a b _ _ => alu_shl_ok a b)))
  | aluShr => exact Res.wp_wpA (stk_ok vm hv _ (pop2push1_ok _ _ hs (fun a b _ _ => alu_shr_ok a b)))
  | aluShrI => exact Res.wp_wpA (stk_ok vm hv _ (pop2push1_ok _ _ hs (fun a b ha _ => alu_shrI_ok a b ha)))
  -- Access
  | accessThisAddress =>
    apply Res.wp_wpA; unfold stepOp; rw [Res.wp_bind']
    apply thisSolution_ok env he; intro sol hsol
    exact stk_ok vm hv _ (extend_ok' _ _ hs (wordsOfBytes_allI64 _ (he.addrBytes sol hsol).2))
  | accessThisContractAddress =>
    apply Res.wp_wpA; unfold stepOp; rw [Res.wp_bind']
    apply thisSolution_ok env he; intro sol hsol
    exact stk_ok vm hv _ (extend_ok' _ _ hs (wordsOfBytes_allI64 _ (he.addrBytes sol hsol).1))
  | accessRepeatCounter =>
    apply Res.wp_wpA; apply stk_ok vm hv; rw [Res.wp_bind']
    apply Res.wp_mono (counter_ok _ hv.repTyped); intro c hc'
    exact push_ok' _ _ hs hc'
  | accessPredicateData =>
    apply Res.wp_wpA; unfold stepOp; rw [Res.wp_bind']
    apply thisSolution_ok env he; intro sol hsol
    exact stk_ok vm hv _ (predicateData_ok _ _ hs (he.dataTyped sol hsol))
  | accessPredicateDataLen =>
    apply Res.wp_wpA; unfold stepOp; rw [Res.wp_bind']
    apply thisSolution_ok env he; intro sol hsol
    exact stk_ok vm hv _ (predicateDataLen_ok _ _ hs)
  | accessPredicateDataSlots =>
    apply Res.wp_wpA; unfold stepOp; rw [Res.wp_bind']
    apply thisSolution_ok env he; intro sol hsol
    exact stk_ok vm hv _ (predicateDataSlots_ok _ _ hs)
  | accessPredicateExists => exact Res.wp_wpA (stk_ok vm hv _ (predicateExists_ok env _ hs))
  -- Crypto
  | cryptoSha256 => exact Res.wp_wpA (stk_ok vm hv _ (sha256_ok env he _ hs))
  | cryptoVerifyEd25519 => exact Res.wp_wpA (stk_ok vm hv _ (verifyEd_ok env _ hs))
  | cryptoRecoverSecp256k1 => exact Res.wp_wpA (stk_ok vm hv _ (recover_ok env he _ hs))
  -- TotalControlFlow
  | totalControlFlowHaltIf =>
    apply Res.wp_wpA; unfold stepOp; rw [Res.wp_bind']
    apply Res.wp_mono (haltIf_ok _ hs); intro ⟨s, f⟩ h1
    simp only [Res.wp_ok]; exact hv.withStack h1
  | totalControlFlowJumpIf =>
    apply Res.wp_wpA; unfold stepOp; rw [Res.wp_bind']
    apply Res.wp_mono (jumpIf_ok _ _ hs); intro ⟨s, f⟩ h1
    simp only [Res.wp_ok]; exact hv.withStack h1
  | totalControlFlowPanicIf => exact Res.wp_wpA (stk_ok vm hv _ (panicIf_ok _ hs))
  -- Memory
  | memoryAlloc =>
    apply Res.wp_wpA; unfold stepOp; rw [Res.wp_bind']
    apply pop_ok _ hs; intro t w ht _ hl
    try simp only []
    split
    · simp
    · rw [Res.wp_bind']
      apply alloc_ok _ _ hm; intro n _ _ hm'
      rw [Res.wp_bind']
      apply Res.wp_mono (push_ok' t _ ht (by have := hm.len; unfold InI64; omega)); intro s' hs'
      simp only [Res.wp_ok]; exact hv.withStackMem hs' hm'
  | memoryFree =>
    apply Res.wp_wpA; unfold stepOp; rw [Res.wp_bind']
    apply pop_ok _ hs; intro t w ht _ hl
    rw [Res.wp_bind']
    apply Res.wp_mono (free_ok _ w hm); intro m' hm'
    simp only [Res.wp_ok]; exact hv.withStackMem ht hm'
  | memoryLoad =>
    exact Res.wp_wpA (stk_ok vm hv _ (pop1push1_ok _ _ hs (fun a _ => memLoad_ok _ a hm.typed)))
  | memoryStore =>
    apply Res.wp_wpA; unfold stepOp; rw [Res.wp_bind']
    apply pop2_ok _ hs; intro t w a ht hw _ _
    rw [Res.wp_bind']
    apply Res.wp_mono (memStore_ok _ a w hm hw); intro m' hm'
    simp only [Res.wp_ok]; exact hv.withStackMem ht hm'
  | memoryLoadRange =>
    apply Res.wp_wpA; apply stk_ok vm hv; rw [Res.wp_bind']
    apply pop2_ok _ hs; intro t a sz ht _ _ _
    rw [Res.wp_bind']
    apply loadRange_ok _ a sz hm.typed; intro ws hws _
    exact extend_ok' t ws ht hws
  | memoryStoreRange =>
    apply Res.wp_wpA; unfold stepOp; rw [Res.wp_bind']
    apply pop_ok _ hs; intro t a ht _ _
    rw [Res.wp_bind']
    apply splitLenWords_ok t ht; intro rest ws hr hws _
    rw [Res.wp_bind']
    apply storeRange_ok _ a ws hm hws; intro m' hm' _ _ _
    simp only [Res.wp_ok]; exact hv.withStackMem hr hm'
  -- ParentMemory
  | parentMemoryLoad =>
    apply Res.wp_wpA; simp only [stepOp]
    split
    · simp
    · rename_i pm hpm
      have hpmo := hv.parents pm (List.mem_of_getLast? hpm)
      exact stk_ok vm hv _ (pop1push1_ok _ _ hs (fun a _ => memLoad_ok _ a hpmo.typed))
  | parentMemoryLoadRange =>
    apply Res.wp_wpA; simp only [stepOp]
    split
    · simp
    · rename_i pm hpm
      have hpmo := hv.parents pm (List.mem_of_getLast? hpm)
      apply stk_ok vm hv; rw [Res.wp_bind']
      apply pop2_ok _ hs; intro t a sz ht _ _ _
      rw [Res.wp_bind']
      apply loadRange_ok _ a sz hpmo.typed; intro ws hws _
      exact extend_ok' t ws ht hws
  -- StateRead
  | stateReadKeyRange =>
    apply Res.wp_wpA; unfold stepOp; rw [Res.wp_bind']
    apply thisSolution_ok env he; intro sol _
    exact memOps_ok vm hv _ (keyRange_ok env.pre _ _ _ hs hm he.preTyped)
  | stateReadKeyRangeExtern =>
    apply Res.wp_wpA; unfold stepOp; rw [Res.wp_bind']
    apply thisSolution_ok env he; intro sol _
    exact memOps_ok vm hv _ (keyRangeExt_ok env.pre _ _ hs hm he.preTyped)
  | stateReadPostKeyRange =>
    apply Res.wp_wpA; unfold stepOp; rw [Res.wp_bind']
    apply thisSolution_ok env he; intro sol _
    exact memOps_ok vm hv _ (keyRange_ok env.post _ _ _ hs hm he.postTyped)
  | stateReadPostKeyRangeExtern =>
    apply Res.wp_wpA; unfold stepOp; rw [Res.wp_bind']
    apply thisSolution_ok env he; intro sol _
    exact memOps_ok vm hv _ (keyRangeExt_ok env.post _ _ hs hm he.postTyped)

/-- typing of the program: it is a slice (length ≤ `isize::MAX`) of ops whose immediates are `i64`s -/
structure ProgOk (env : Env) : Prop where
  bound : ∀ i op, env.ops i = some op → i < isizeMax
  wf : ∀ i op, env.ops i = some op → op.WF

def Outcome.vm : Outcome → Vm | .done _ v => v | .cont _ v => v
def Outcome.gas : Outcome → Nat | .done g _ => g | .cont g _ => g

theorem VmInv.withPc {d : Nat} {vm : Vm} (hv : VmInv d vm) (n : Nat) : VmInv d { vm with pc := n } :=
  ⟨hv.stack, hv.memory, hv.repLen, hv.repTyped, hv.depth, hv.depthLe, hv.parents⟩

theorem execStep_inv (child : ChildExec) (d : Nat) (env : Env) (hc : d = 0 → ChildSpec child env) (he : EnvOk env) (hb : BreadthOk env)
    (hp : ProgOk env) (gas : Nat) (vm : Vm) (hv : VmInv d vm) :
    (execStep child env gas vm).wpA (fun o => VmInv d o.vm) := by
  unfold execStep
  split
  · simp only [Res.wpA_ok, Outcome.vm]; exact hv
  · rename_i op hop
    try simp only []
    split
    · simp
    · have h := stepOp_inv child d env hc he hb vm hv (hp.bound _ _ hop) op (hp.wf _ _ hop)
      cases hs : stepOp child env vm op with
      | err e => simp
      | panic m => rw [hs] at h; simp at h
      | abort m => simp
      | ok r =>
        rw [hs] at h
        simp only [Res.wpA_ok] at h
        obtain ⟨vm', f⟩ := r
        cases f with
        | next => simp only [Res.wpA_ok, Outcome.vm]; exact h.withPc _
        | pc n => simp only [Res.wpA_ok, Outcome.vm]; exact h.withPc _
        | halt => simp only [Res.wpA_ok, Outcome.vm]; exact h
        | computeEnd => simp only [Res.wpA_ok, Outcome.vm]; exact h.withPc _
        | computeResult pc' g hh =>
          simp only []
          split
          · simp
          · have h' : VmInv d { vm' with pc := pc', halt := vm'.halt || hh } :=
              ⟨h.stack, h.memory, h.repLen, h.repTyped, h.depth, h.depthLe, h.parents⟩
            split <;> simp only [Res.wpA_ok, Outcome.vm] <;> exact h'

theorem execWith_inv (child : ChildExec) (d : Nat) (env : Env) (hc : d = 0 → ChildSpec child env) (he : EnvOk env) (hb : BreadthOk env)
    (hp : ProgOk env) (fuel : Nat) : ∀ (gas : Nat) (vm : Vm), VmInv d vm →
    (execWith child env fuel gas vm).wpA (fun r => ∀ g v, r = some (g, v) → VmInv d v) := by
  induction fuel with
  | zero => intro gas vm _; simp [execWith]
  | succ fuel ih =>
    intro gas vm hv
    unfold execWith
    have h := execStep_inv child d env hc he hb hp gas vm hv
    cases hs : execStep child env gas vm with
    | err e => simp
    | panic m => rw [hs] at h; simp at h
    | abort m => simp
    | ok o =>
      rw [hs] at h
      simp only [Res.wpA_ok] at h
      cases o with
      | done g v =>
        simp only [Res.wpA_ok]
        intro g' v' e; cases e; exact h
      | cont g v => exact ih g v h

/-- the executor used for compute children satisfies `ChildSpec` for programs that are `ProgOk`
(children run the *same* program, hence the same `env.ops`) -/
theorem execChild_spec (fuel : Nat) (env : Env) (he : EnvOk env) (hb : BreadthOk env) (hp : ProgOk env) :
    ChildSpec (execChild fuel) env := by
  intro vm hv
  unfold execChild
  have h := execWith_inv noChild 1 env (by omega) he hb hp fuel 0 vm hv
  cases hs : execWith noChild env fuel 0 vm with
  | err e => simp
  | panic m => rw [hs] at h; simp at h
  | abort m => simp
  | ok r =>
    rw [hs] at h
    simp only [Res.wpA_ok] at h
    cases r with
    | none => simp
    | some p => simp only [Res.wpA_ok]; exact h p.1 p.2 rfl

/-- **`Vm::exec` is total and keeps the invariant** (top level, children included) -/
theorem exec_inv (fuel : Nat) (env : Env) (he : EnvOk env) (hb : BreadthOk env) (hp : ProgOk env)
    (vm : Vm) (hv : VmInv 0 vm) :
    (exec fuel env vm).wpA (fun r => ∀ g v, r = some (g, v) → VmInv 0 v) :=
  execWith_inv (execChild fuel) 0 env (fun _ => execChild_spec fuel env he hb hp) he hb hp fuel 0 vm hv

end Essential
