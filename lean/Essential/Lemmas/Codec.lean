/-
The two codec round-trip theorems over the generated op table (shared by C13, C14, C15, C17).
-/
import Essential.Lemmas.Asm

namespace Essential.Codec
open Essential Spec

/-- serialising any op sequence and parsing it back yields the same sequence -/
theorem decode_encode (ops : List Op) (h : ∀ op ∈ ops, op.WF) : decode (encode ops) = .ok ops := by
  have := decodeStream_encode_append ops h []
  simp only [List.append_nil, decodeStream_nil] at this
  unfold decode
  rw [this]
  have := collect_map_ok_append ops []
  simp only [List.append_nil] at this
  rw [this]; simp [collect, Except.map]

/-- parsing any byte string either fails or yields ops that serialise to exactly those bytes
(hence the encoding is unambiguous: `encode` is injective on parse results) -/
theorem encode_decode (bs : List Nat) (hb : AllBytes bs) (ops : List Op) (h : decode bs = .ok ops) :
    encode ops = bs ∧ ∀ op ∈ ops, op.WF := by
  unfold decode at h
  induction bs using decodeStream.induct generalizing ops with
  | case1 =>
    rw [decodeStream_nil] at h
    simp [collect] at h; subst h; simp [encode]
  | case2 b rest ih =>
    rw [decodeStream_cons] at h
    cases hr : (tryFromBytes b rest).1 with
    | error e => rw [hr] at h; simp [collect] at h
    | ok op =>
      rw [hr] at h
      simp only [collect] at h
      cases hc : collect (decodeStream (tryFromBytes b rest).2) with
      | error e => rw [hc] at h; simp [Except.map] at h
      | ok ops' =>
        rw [hc] at h
        simp only [Except.map, Except.ok.injEq] at h
        subst h
        have hpair : tryFromBytes b rest = (.ok op, (tryFromBytes b rest).2) := by
          rw [← hr]
        obtain ⟨henc, hwf⟩ := tryFromBytes_ok b rest hb op _ hpair
        have hb' : AllBytes (tryFromBytes b rest).2 := by
          intro x hx
          apply hb x
          rw [henc]; exact List.mem_append_right _ hx
        obtain ⟨ih1, ih2⟩ := ih hb' ops' hc
        refine ⟨?_, ?_⟩
        · simp only [encode, List.flatMap_cons] at ih1 ⊢
          rw [ih1, ← henc]
        · intro o ho
          simp only [List.mem_cons] at ho
          rcases ho with rfl | ho
          · exact hwf
          · exact ih2 o ho

/-- two op sequences with the same bytes are the same sequence -/
theorem encode_injective (a b : List Op) (ha : ∀ op ∈ a, op.WF) (hb : ∀ op ∈ b, op.WF)
    (h : encode a = encode b) : a = b := by
  have h1 := decode_encode a ha
  have h2 := decode_encode b hb
  rw [h] at h1
  rw [h1] at h2
  exact Except.ok.inj h2

end Essential.Codec
