/-
Helper lemmas for the VM model: invariants, `wp` rules for the primitives.
-/
import Essential.Model.Vm

namespace Essential
open Spec

/-! ### typing / bound predicates -/

theorem AllI64_nil : AllI64 [] := by intro w h; cases h
theorem AllI64_append {a b : List Int} : AllI64 (a ++ b) ↔ AllI64 a ∧ AllI64 b := by
  unfold AllI64; simp only [List.mem_append]
  constructor
  · intro h; exact ⟨fun w hw => h w (Or.inl hw), fun w hw => h w (Or.inr hw)⟩
  · rintro ⟨h1, h2⟩ w (hw | hw); exact h1 w hw; exact h2 w hw
theorem AllI64_cons {a : Int} {b : List Int} : AllI64 (a :: b) ↔ InI64 a ∧ AllI64 b := by
  unfold AllI64; simp
theorem AllI64_singleton {a : Int} : AllI64 [a] ↔ InI64 a := by
  unfold AllI64; simp
theorem AllI64_take {a : List Int} (n : Nat) (h : AllI64 a) : AllI64 (a.take n) :=
  fun w hw => h w (List.mem_of_mem_take hw)
theorem AllI64_drop {a : List Int} (n : Nat) (h : AllI64 a) : AllI64 (a.drop n) :=
  fun w hw => h w (List.mem_of_mem_drop hw)
theorem AllI64_replicate (n : Nat) : AllI64 (List.replicate n 0) := by
  intro w hw; rw [List.mem_replicate] at hw; rw [hw.2]; unfold InI64; omega
theorem AllI64_set {a : List Int} (i : Nat) (w : Int) (h : AllI64 a) (hw : InI64 w) : AllI64 (a.set i w) := by
  intro x hx
  rcases List.mem_or_eq_of_mem_set hx with h1 | h1
  · exact h x h1
  · rw [h1]; exact hw
theorem AllI64_getElem? {a : List Int} {i : Nat} {w : Int} (h : AllI64 a) (hw : a[i]? = some w) : InI64 w :=
  h w (List.mem_of_getElem? hw)
theorem AllI64_dropLast {a : List Int} (h : AllI64 a) : AllI64 a.dropLast :=
  fun w hw => h w (List.dropLast_subset a hw)

theorem InI64_zero : InI64 0 := by unfold InI64; omega
theorem InI64_one : InI64 1 := by unfold InI64; omega
theorem InI64_boolWord (b : Bool) : InI64 (boolWord b) := by
  cases b <;> simp [boolWord, InI64]
theorem InI64_natCast {n : Nat} (h : n ≤ 9223372036854775807) : InI64 (n : Int) := by
  unfold InI64; omega

theorem wrapI64_inI64 (x : Int) : InI64 (wrapI64 x) := by
  unfold wrapI64 InI64
  simp only []
  split <;> omega

/-- stack: within the limit and every word an `i64` -/
structure StackOk (s : Stack) : Prop where
  len : s.length ≤ 4096
  typed : AllI64 s

structure MemOk (m : Memory) : Prop where
  len : m.length ≤ 10240
  typed : AllI64 m

def SlotOk (s : Slot) : Prop :=
  InI64 s.counter ∧ match s.limit with | .up l => InI64 l | .down => True

/-- the machine invariant of C05, at compute depth `d` (0 = top level, 1 = compute child) -/
structure VmInv (d : Nat) (vm : Vm) : Prop where
  stack : StackOk vm.stack
  memory : MemOk vm.memory
  repLen : vm.rep.length ≤ 4096
  repTyped : ∀ s ∈ vm.rep, SlotOk s
  depth : vm.parentMemory.length = d
  depthLe : d ≤ 1
  parents : ∀ pm ∈ vm.parentMemory, MemOk pm

theorem sizeLimit_eq : Stack.sizeLimit = 4096 := rfl
theorem memLimit_eq : Memory.sizeLimit = 10240 := rfl

/-! ### stack primitives -/

@[simp] theorem pop_nil : Stack.pop [] = .err .stackEmpty := rfl
@[simp] theorem pop_append_singleton (t : List Int) (w : Int) : Stack.pop (t ++ [w]) = .ok (t, w) := by
  simp [Stack.pop]

theorem pop_wp (s : Stack) (Q : Stack × Int → Prop)
    (h : ∀ t w, s = t ++ [w] → Q (t, w)) : (Stack.pop s).wp Q := by
  rcases List.eq_nil_or_concat s with h' | ⟨t, w, h'⟩
  · subst h'; simp
  · rw [List.concat_eq_append] at h'; subst h'; simpa using h t w rfl

theorem pop_eq_ok {s t : Stack} {w : Int} (h : Stack.pop s = .ok (t, w)) : s = t ++ [w] := by
  rcases List.eq_nil_or_concat s with h' | ⟨t', w', h'⟩
  · subst h'; simp at h
  · rw [List.concat_eq_append] at h'; subst h'; simp at h; rw [h.1, h.2]

theorem pop_eq_err {s : Stack} {e : Err} (h : Stack.pop s = .err e) : s = [] ∧ e = .stackEmpty := by
  rcases List.eq_nil_or_concat s with h' | ⟨t', w', h'⟩
  · subst h'; simp at h; exact ⟨rfl, h.symm⟩
  · rw [List.concat_eq_append] at h'; subst h'; simp at h

theorem push_wp (s : Stack) (w : Int) (Q : Stack → Prop)
    (h : s.length < Stack.sizeLimit → Q (s ++ [w])) : (Stack.push s w).wp Q := by
  unfold Stack.push; split
  · simp
  · simp; apply h; omega

theorem push_ok {s : Stack} (w : Int) (h : s.length < Stack.sizeLimit) : Stack.push s w = .ok (s ++ [w]) := by
  unfold Stack.push; rw [if_neg]; omega

theorem push_err {s : Stack} (w : Int) (h : Stack.sizeLimit ≤ s.length) : Stack.push s w = .err .stackOverflow := by
  unfold Stack.push; rw [if_pos]; omega

theorem extend_wp (s : Stack) (ws : List Int) (Q : Stack → Prop)
    (h : (ws = [] ∨ s.length + ws.length ≤ Stack.sizeLimit) → Q (s ++ ws)) : (Stack.extend s ws).wp Q := by
  unfold Stack.extend; split
  · simp; apply h; assumption
  · simp

theorem extend_ok {s : Stack} (ws : List Int) (h : s.length + ws.length ≤ Stack.sizeLimit) :
    Stack.extend s ws = .ok (s ++ ws) := by
  unfold Stack.extend; rw [if_pos]; exact Or.inr h

theorem pop2_wp (s : Stack) (Q : Stack × Int × Int → Prop)
    (h : ∀ t a b, s = t ++ [a, b] → Q (t, a, b)) : (Stack.pop2 s).wp Q := by
  unfold Stack.pop2
  simp only [bind]
  rw [show (Stack.pop s).bind _ = (Stack.pop s >>= _) from rfl, Res.wp_bind]
  apply pop_wp; intro t b hs
  show (Stack.pop t >>= _).wp Q
  rw [Res.wp_bind]
  apply pop_wp; intro t' a ht
  subst hs ht
  simpa using h t' a b (by simp)

@[simp] theorem pop2_append (t : List Int) (a b : Int) : Stack.pop2 (t ++ [a, b]) = .ok (t, a, b) := by
  have : Stack.pop (t ++ [a, b]) = .ok (t ++ [a], b) := by simp [Stack.pop, List.dropLast]
  simp [Stack.pop2, bind, Res.bind, this]

theorem usizeOr_wp (w : Int) (e : Err) (Q : Nat → Prop) (h : ∀ n : Nat, w = n → Q n) :
    (Stack.usizeOr w e).wp Q := by
  unfold Stack.usizeOr; split
  · simp; apply h; omega
  · simp

theorem splitLen_wp (s : List Int) (len : Nat) (Q : List Int × List Int → Prop)
    (h : ∀ rest ws, s = rest ++ ws → ws.length = len → Q (rest, ws)) : (Stack.splitLen s len).wp Q := by
  unfold Stack.splitLen; split
  · simp; apply h
    · simp
    · simp; omega
  · simp

theorem splitLenWords_wp (s : List Int) (Q : List Int × List Int → Prop)
    (h : ∀ rest ws, s = rest ++ ws ++ [(ws.length : Int)] → Q (rest, ws)) : (Stack.splitLenWords s).wp Q := by
  unfold Stack.splitLenWords
  rcases List.eq_nil_or_concat s with h' | ⟨t, w, h'⟩
  · subst h'; simp
  · rw [List.concat_eq_append] at h'; subst h'
    simp only [List.getLast?_append, List.getLast?_singleton, Option.some_or, List.dropLast_concat]
    split
    · simp
    · apply splitLen_wp; intro rest ws hs hl
      apply h; subst hs; simp [hl]; omega

end Essential
