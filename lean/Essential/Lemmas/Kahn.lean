/-
The Kahn-style level sort (`parallel_topo_sort`): the in-degree map is, at every round, the
number of edges from not-yet-removed nodes; levels are disjoint, cover every node when the sort
succeeds, and every parent of a node sits in an earlier level.
-/
import Essential.Model.Check
import Essential.Props.C06

set_option linter.unusedSimpArgs false
set_option linter.unusedVariables false
namespace Essential.Kahn
open Essential

/-! ### the degree map under `reduce_in_degrees` -/

theorem reduceOne_get (d : Deg) (c v : Nat) :
    (reduceOne d c)[v]? = if v = c then (match d[c]? with | some (some x) => some (some (x - 1)) | o => o) else d[v]? := by
  unfold reduceOne
  by_cases hv : v = c
  · subst hv
    simp only [if_true]
    cases h : d[v]? with
    | none => simp [h]
    | some o =>
      cases o with
      | none => simp [h]
      | some x =>
        have hl : v < d.length := by
          rcases Nat.lt_or_ge v d.length with h' | h'
          · exact h'
          · rw [List.getElem?_eq_none h'] at h; cases h
        simp [List.getElem?_set, hl]
  · simp only [hv, if_false]
    split
    · rw [List.getElem?_set]; simp [Ne.symm hv]
    · rfl

/-- after reducing along `cs`, a live entry has lost one unit per occurrence in `cs` -/
theorem reduceDeg_get (cs : List Nat) : ∀ (d : Deg) (v : Nat),
    (reduceDeg d cs)[v]? = match d[v]? with | some (some x) => some (some (x - cs.count v)) | o => o := by
  induction cs with
  | nil => intro d v; simp only [reduceDeg, List.foldl_nil, List.count_nil, Nat.sub_zero]; split <;> simp_all
  | cons c cs ih =>
    intro d v
    simp only [reduceDeg, List.foldl_cons] at ih ⊢
    rw [ih, reduceOne_get]
    by_cases hv : v = c
    · subst hv
      simp only [if_true, List.count_cons_self]
      cases h : d[v]? with
      | none => rfl
      | some o =>
        cases o with
        | none => rfl
        | some x => simp only []; congr 2; omega
    · simp only [hv, if_false]
      have : (c == v) = false := by simp [Ne.symm hv]
      simp only [List.count_cons, this, Bool.false_eq_true, if_false, Nat.add_zero]

theorem removeNode_get (p : Predicate) (d : Deg) (u v : Nat) (hu : u < d.length) :
    (removeNode p d u)[v]? = if v = u then some none else
      match d[v]? with | some (some x) => some (some (x - (edgesOf p u).count v)) | o => o := by
  unfold removeNode
  rw [List.getElem?_set]
  by_cases hv : v = u
  · subst hv; simp [C06.reduceDeg_length, hu]
  · simp only [Ne.symm hv, hv, if_false]
    exact reduceDeg_get _ d v

/-! ### the invariant -/

/-- number of edges into `v` from nodes not in `S` -/
def liveIn (p : Predicate) (S : List Nat) (v : Nat) : Nat :=
  (((List.range p.nodes.length).filter fun u => !S.contains u).map fun u => (edgesOf p u).count v).sum

/-- `d` is the degree map after the nodes `S` have been removed -/
def Inv (p : Predicate) (d : Deg) (S : List Nat) : Prop :=
  d.length = p.nodes.length ∧
  ∀ v, v < p.nodes.length → (v ∈ S → d[v]? = some none) ∧ (v ∉ S → d[v]? = some (some (liveIn p S v)))

theorem sum_remove' (l : List Nat) (g : Nat → Nat) (q : Nat → Bool) (u : Nat) (hn : l.Nodup) (hu : u ∈ l) (hq : q u = true) :
    ((l.filter fun x => q x && !(x == u)).map g).sum + g u = ((l.filter q).map g).sum := by
  induction l with
  | nil => cases hu
  | cons a l ih =>
    simp only [List.nodup_cons] at hn
    by_cases hau : a = u
    · subst hau
      have rest : (l.filter fun x => q x && !(x == a)) = l.filter q := by
        apply List.filter_congr
        intro x hx
        have : x ≠ a := fun h => hn.1 (h ▸ hx)
        simp [this]
      simp only [List.filter_cons, hq, beq_self_eq_true, Bool.not_true, Bool.and_false, Bool.false_eq_true, if_false, if_true,
        List.map_cons, List.sum_cons, rest]
      omega
    · have hu' : u ∈ l := by
        rcases List.mem_cons.mp hu with h | h
        · exact absurd h.symm hau
        · exact h
      have := ih hn.2 hu'
      have hb : (a == u) = false := by simp [hau]
      by_cases ha : q a = true
      · simp only [List.filter_cons, ha, hb, Bool.not_false, Bool.and_true, if_true, List.map_cons, List.sum_cons]
        omega
      · simp only [List.filter_cons, ha, Bool.false_and, Bool.false_eq_true, if_false]
        exact this

theorem sum_remove (l : List Nat) (g : Nat → Nat) (S : List Nat) (u : Nat) (hn : l.Nodup) (hu : u ∈ l) (hS : u ∉ S) :
    ((l.filter fun x => !(S ++ [u]).contains x).map g).sum + g u = ((l.filter fun x => !S.contains x).map g).sum := by
  have e : (fun x => !(S ++ [u]).contains x) = fun x => (!S.contains x) && !(x == u) := by
    funext x
    simp only [List.contains_eq_mem, List.mem_append, List.mem_singleton]
    by_cases h1 : x ∈ S <;> by_cases h2 : x = u <;> simp [h1, h2]
  rw [e]
  exact sum_remove' l g (fun x => !S.contains x) u hn hu (by simp [hS])

theorem le_sum_of_mem' (l : List Nat) (x : Nat) (h : x ∈ l) : x ≤ l.sum := by
  induction l with
  | nil => cases h
  | cons a l ih =>
    simp only [List.sum_cons]
    rcases List.mem_cons.mp h with rfl | h
    · omega
    · have := ih h; omega

theorem liveIn_remove (p : Predicate) (S : List Nat) (u v : Nat) (hu : u < p.nodes.length) (hS : u ∉ S) :
    liveIn p (S ++ [u]) v + (edgesOf p u).count v = liveIn p S v := by
  unfold liveIn
  exact sum_remove _ (fun u => (edgesOf p u).count v) S u List.nodup_range (List.mem_range.mpr hu) hS

theorem inv_remove (p : Predicate) (d : Deg) (S : List Nat) (u : Nat) (h : Inv p d S) (hu : u < p.nodes.length) (hS : u ∉ S) :
    Inv p (removeNode p d u) (S ++ [u]) := by
  refine ⟨by rw [C06.removeNode_length]; exact h.1, ?_⟩
  intro v hv
  rw [removeNode_get p d u v (by rw [h.1]; exact hu)]
  constructor
  · intro hm
    by_cases hvu : v = u
    · simp [hvu]
    · simp only [hvu, if_false]
      have : v ∈ S := by
        rcases List.mem_append.mp hm with h' | h'
        · exact h'
        · exact absurd (List.mem_singleton.mp h') hvu
      rw [(h.2 v hv).1 this]
  · intro hm
    have hvu : v ≠ u := fun e => hm (by simp [e])
    have hvS : v ∉ S := fun e => hm (by simp [e])
    simp only [hvu, if_false]
    rw [(h.2 v hv).2 hvS]
    simp only []
    have := liveIn_remove p S u v hu hS
    congr 2; omega

theorem inv_remove_level (p : Predicate) : ∀ (lv : List Nat) (d : Deg) (S : List Nat), Inv p d S →
    (∀ u ∈ lv, u < p.nodes.length) → (∀ u ∈ lv, u ∉ S) → lv.Nodup → Inv p (lv.foldl (removeNode p) d) (S ++ lv) := by
  intro lv
  induction lv with
  | nil => intro d S h _ _ _; simpa using h
  | cons u us ih =>
    intro d S h hb hS hn
    simp only [List.foldl_cons]
    simp only [List.nodup_cons] at hn
    have := ih (removeNode p d u) (S ++ [u]) (inv_remove p d S u h (hb u (by simp)) (hS u (by simp)))
      (fun x hx => hb x (by simp [hx]))
      (fun x hx hm => by
        rcases List.mem_append.mp hm with h' | h'
        · exact hS x (by simp [hx]) h'
        · exact hn.1 (List.mem_singleton.mp h' ▸ hx))
      hn.2
    simpa [List.append_assoc] using this

theorem inv_init (p : Predicate) : Inv p (inDegrees p) [] := by
  refine ⟨by simp [inDegrees], ?_⟩
  intro v hv
  refine ⟨fun h => (by cases h), fun _ => ?_⟩
  simp only [inDegrees, List.getElem?_map, List.getElem?_range hv, Option.map_some]
  congr 2
  unfold parentsOf liveIn
  rw [List.length_flatMap]
  simp only [List.contains_eq_mem, List.not_mem_nil, decide_false, Bool.not_false]
  rw [List.filter_eq_self.mpr (fun _ _ => rfl)]
  congr 1
  apply List.map_congr_left
  intro u _
  simp only [List.length_map, List.count_eq_length_filter]

/-- members of a level are live nodes of degree zero -/
theorem levelOf_mem (p : Predicate) (d : Deg) (S : List Nat) (h : Inv p d S) (v : Nat) (hv : v ∈ levelOf d) :
    v < p.nodes.length ∧ v ∉ S ∧ liveIn p S v = 0 := by
  have hl := C06.levelOf_lt d v hv
  rw [h.1] at hl
  simp only [levelOf, List.mem_filter, List.mem_range, beq_iff_eq] at hv
  refine ⟨hl, ?_, ?_⟩
  · intro hm; rw [(h.2 v hl).1 hm] at hv; cases hv.2
  · by_cases hm : v ∈ S
    · rw [(h.2 v hl).1 hm] at hv; cases hv.2
    · rw [(h.2 v hl).2 hm] at hv
      have := hv.2
      simp only [Option.some.injEq] at this
      exact this

/-- a live node of degree zero has all its parents removed -/
theorem parents_removed (p : Predicate) (S : List Nat) (v : Nat) (h0 : liveIn p S v = 0) (u : Nat)
    (hu : u < p.nodes.length) (he : v ∈ edgesOf p u) : u ∈ S := by
  unfold liveIn at h0
  by_cases hm : u ∈ S
  · exact hm
  · exfalso
    have hmem : (edgesOf p u).count v ∈ (((List.range p.nodes.length).filter fun u => !S.contains u).map fun u => (edgesOf p u).count v) := by
      apply List.mem_map.mpr
      exact ⟨u, List.mem_filter.mpr ⟨List.mem_range.mpr hu, by simp [hm]⟩, rfl⟩
    have hpos : 0 < (edgesOf p u).count v := List.count_pos_iff.mpr he
    have : (edgesOf p u).count v ≤ 0 := by
      rw [← h0]; exact le_sum_of_mem' _ _ hmem
    omega

/-! ### the level order is a plan: every level's nodes are new and have all parents done -/

/-- `ls` is a valid continuation after the nodes `S`: each level consists of distinct new nodes
(ascending) all of whose parents are already done -/
def Planned (p : Predicate) : List Nat → List (List Nat) → Prop
  | _, [] => True
  | S, lv :: rest =>
    (∀ v ∈ lv, v < p.nodes.length ∧ v ∉ S ∧ ∀ u, u < p.nodes.length → v ∈ edgesOf p u → u ∈ S) ∧
    lv.Pairwise (· < ·) ∧ Planned p (S ++ lv) rest

theorem lt_nodup (l : List Nat) (h : l.Pairwise (· < ·)) : l.Nodup := List.Pairwise.imp (fun hab => by omega) h

theorem remaining_nil (p : Predicate) (d : Deg) (S : List Nat) (h : Inv p d S) (hr : remaining d = []) :
    ∀ v, v < p.nodes.length → v ∈ S := by
  intro v hv
  by_cases hm : v ∈ S
  · exact hm
  · exfalso
    have hd := (h.2 v hv).2 hm
    have : v ∈ remaining d := by
      unfold remaining
      exact List.mem_filter.mpr ⟨List.mem_range.mpr (by rw [h.1]; exact hv), by simp [hd]⟩
    rw [hr] at this; cases this

theorem topoLevels_planned (p : Predicate) (f : Nat) : ∀ (d : Deg) (S : List Nat) (ls : List (List Nat)),
    Inv p d S → topoLevels p f d = some ls →
      Planned p S ls ∧ ∀ v, v < p.nodes.length → v ∈ S ++ ls.flatten := by
  induction f with
  | zero =>
    intro d S ls h ht
    simp only [topoLevels] at ht
    split at ht
    · rename_i hr; cases ht
      exact ⟨trivial, fun v hv => by simpa using remaining_nil p d S h hr v hv⟩
    · cases ht
  | succ f ih =>
    intro d S ls h ht
    simp only [topoLevels] at ht
    split at ht
    · rename_i hr; cases ht
      exact ⟨trivial, fun v hv => by simpa using remaining_nil p d S h hr v hv⟩
    · split at ht
      · cases ht
      · cases hrec : topoLevels p f ((levelOf d).foldl (removeNode p) d) with
        | none => rw [hrec] at ht; cases ht
        | some rest =>
          rw [hrec] at ht
          simp only [Option.map_some, Option.some.injEq] at ht
          subst ht
          have hlv : ∀ v ∈ levelOf d, v < p.nodes.length ∧ v ∉ S ∧ liveIn p S v = 0 := fun v hv => levelOf_mem p d S h v hv
          have hsorted : (levelOf d).Pairwise (· < ·) := by
            unfold levelOf; exact List.pairwise_lt_range.filter _
          have hinv := inv_remove_level p (levelOf d) d S h (fun u hu => (hlv u hu).1) (fun u hu => (hlv u hu).2.1) (lt_nodup _ hsorted)
          obtain ⟨hp, hc⟩ := ih _ _ rest hinv hrec
          refine ⟨⟨fun v hv => ⟨(hlv v hv).1, (hlv v hv).2.1, fun u hu he => parents_removed p S v (hlv v hv).2.2 u hu he⟩, hsorted, hp⟩, ?_⟩
          intro v hv
          have := hc v hv
          simpa [List.append_assoc] using this

/-- **the level order of an accepted graph**: a plan from the empty set that covers every node -/
theorem topoSort_planned (p : Predicate) (ls : List (List Nat)) (h : topoSort p = .ok ls) :
    Planned p [] ls ∧ ∀ v, v < p.nodes.length → v ∈ ls.flatten := by
  unfold topoSort at h
  split at h
  · rename_i l hl
    cases h
    have := topoLevels_planned p _ _ [] _ (inv_init p) hl
    simpa using this
  · cases h

/-- in a plan, no node occurs twice (each program is run at most once) -/
theorem planned_nodup (p : Predicate) : ∀ (ls : List (List Nat)) (S : List Nat), S.Nodup → Planned p S ls → (S ++ ls.flatten).Nodup := by
  intro ls
  induction ls with
  | nil => intro S hS _; simpa using hS
  | cons lv rest ih =>
    intro S hS hp
    obtain ⟨h1, h2, h3⟩ := hp
    have : (S ++ lv).Nodup := by
      rw [List.nodup_append]
      refine ⟨hS, lt_nodup _ h2, ?_⟩
      intro a ha b hb hab
      subst hab
      exact (h1 a hb).2.1 ha
    have := ih (S ++ lv) this h3
    simpa [List.append_assoc] using this

end Essential.Kahn
