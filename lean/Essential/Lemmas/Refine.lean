/-
Refinement of the level-by-level evaluation (`run_levels`: inputs looked up in the cross-pass and
the pass-local cache) to a reference evaluation `R` of the graph: running a pass is processing
the reference results of its nodes in level order.
-/
import Essential.Lemmas.Kahn

set_option linter.unusedSimpArgs false
set_option linter.unusedVariables false
namespace Essential.Refine
open Essential Essential.Kahn

/-! ### caches -/

theorem get_insert_self (c : Cache) (k : Nat) (v : Stack × Memory) : (c.insert k v).get k = some v := by
  simp [Cache.get, Cache.insert]

theorem get_insert_other (c : Cache) (k k' : Nat) (v : Stack × Memory) (h : k' ≠ k) : (c.insert k v).get k' = c.get k' := by
  unfold Cache.get Cache.insert
  have hb : (k == k') = false := by simp [Ne.symm h]
  simp only [List.find?_cons, hb]
  congr 1
  induction c with
  | nil => rfl
  | cons e es ih =>
    simp only [List.filter_cons]
    by_cases he : e.1 = k
    · have : (e.1 != k) = false := by simp [he]
      have h2 : (e.1 == k') = false := by simp [he, Ne.symm h]
      simp only [this, Bool.false_eq_true, if_false, List.find?_cons, h2, ih]
    · have : (e.1 != k) = true := by simp [he]
      simp only [this, if_true, List.find?_cons, ih]

theorem mem_parentsOf (p : Predicate) (u v : Nat) : u ∈ parentsOf p v ↔ u < p.nodes.length ∧ v ∈ edgesOf p u := by
  unfold parentsOf
  simp only [List.mem_flatMap, List.mem_range, List.mem_map, List.mem_filter, beq_iff_eq]
  constructor
  · rintro ⟨u', hu', ⟨x, ⟨hx, rfl⟩, rfl⟩⟩; exact ⟨hu', hx⟩
  · rintro ⟨hu, hv⟩; exact ⟨u, hu, v, ⟨hv, rfl⟩, rfl⟩

/-! ### the reference evaluation -/

/-- what a node hands to its children -/
def parentOut : Res String (NodeOut × Nat) → Option (Stack × Memory)
  | .ok (.parent s m, _) => some (s, m)
  | _ => none

/-- the inputs of `v` under `R`: the outputs of its parents in ascending order, with multiplicity -/
def refInputs (p : Predicate) (R : Nat → Res String (NodeOut × Nat)) (v : Nat) : List (Stack × Memory) :=
  (parentsOf p v).filterMap fun u => parentOut (R u)

/-- the caches after the nodes `A` of a pass that started from the cross-pass cache `c0` -/
def CacheInv (p : Predicate) (D : List Nat) (R : Nat → Res String (NodeOut × Nat)) (c0 : Cache) (acc : LevelAcc) (A : List Nat) : Prop :=
  (∀ u, acc.cache.get u = if A.contains u && shouldCache p D u then parentOut (R u) else c0.get u) ∧
  (∀ u, acc.local_.get u = if A.contains u && !shouldCache p D u then parentOut (R u) else none)

/-- a pass: every level consists of distinct new nodes, unknown to the cross-pass cache, whose
parents are done in this pass or known to the cross-pass cache -/
def PassPlan (p : Predicate) (R : Nat → Res String (NodeOut × Nat)) (c0 : Cache) : List Nat → List (List Nat) → Prop
  | _, [] => True
  | A, lv :: rest =>
    (∀ v ∈ lv, v ∉ A ∧ c0.get v = none ∧ ∀ u ∈ parentsOf p v, u ∈ A ∨ (c0.get u = parentOut (R u))) ∧
    lv.Nodup ∧ PassPlan p R c0 (A ++ lv) rest

theorem outOf_done (p : Predicate) (D : List Nat) (R) (c0 : Cache) (acc : LevelAcc) (A : List Nat)
    (h : CacheInv p D R c0 acc A) (hc : ∀ u ∈ A, c0.get u = none) (u : Nat) (hu : u ∈ A) :
    ((acc.cache.get u).orElse fun _ => acc.local_.get u) = parentOut (R u) := by
  rw [h.1 u, h.2 u]
  have : A.contains u = true := by simp [hu]
  by_cases hs : shouldCache p D u = true
  · simp only [this, hs, Bool.and_true, if_true, Bool.not_true, Bool.and_false, Bool.false_eq_true, if_false]
    cases parentOut (R u) <;> rfl
  · have hs' : shouldCache p D u = false := by simpa using hs
    simp only [this, hs', Bool.and_false, Bool.false_eq_true, if_false, Bool.not_false, Bool.and_true, if_true, hc u hu]
    rfl

theorem outOf_not_done (p : Predicate) (D : List Nat) (R) (c0 : Cache) (acc : LevelAcc) (A : List Nat)
    (h : CacheInv p D R c0 acc A) (u : Nat) (hu : u ∉ A) :
    ((acc.cache.get u).orElse fun _ => acc.local_.get u) = c0.get u := by
  rw [h.1 u, h.2 u]
  have : A.contains u = false := by simp [hu]
  simp only [this, Bool.false_and, Bool.false_eq_true, if_false]
  cases c0.get u <;> rfl

/-- the inputs a node gets from the caches are its reference inputs -/
theorem nodeInputs_ref (p : Predicate) (D : List Nat) (R) (c0 : Cache) (acc : LevelAcc) (A : List Nat)
    (h : CacheInv p D R c0 acc A) (hc : ∀ u ∈ A, c0.get u = none) (v : Nat)
    (hp : ∀ u ∈ parentsOf p v, u ∈ A ∨ (c0.get u = parentOut (R u))) :
    nodeInputs p acc v = refInputs p R v := by
  unfold nodeInputs refInputs
  apply C02_filterMap_congr
  intro u hu
  by_cases hA : u ∈ A
  · exact outOf_done p D R c0 acc A h hc u hA
  · rcases hp u hu with h' | h'
    · exact absurd h' hA
    · rw [outOf_not_done p D R c0 acc A h u hA, h']
where
  C02_filterMap_congr {α β : Type} {l : List α} {f g : α → Option β} (h : ∀ x ∈ l, f x = g x) : l.filterMap f = l.filterMap g := by
    induction l with
    | nil => rfl
    | cons a l ih =>
      simp only [List.filterMap_cons, h a (by simp)]
      rw [ih (fun x hx => h x (by simp [hx]))]

/-! ### processing results -/

theorem process_append (p : Predicate) (D : List Nat) (ca : Bool) :
    ∀ (l1 l2 : List (Nat × Res String (NodeOut × Nat))) (acc : LevelAcc),
      processResults p D ca (l1 ++ l2) acc =
        match processResults p D ca l1 acc with
        | .ok (acc', false) => processResults p D ca l2 acc'
        | r => r := by
  intro l1
  induction l1 with
  | nil => intro l2 acc; rfl
  | cons hd tl ih =>
    intro l2 acc
    obtain ⟨node, r⟩ := hd
    cases r with
    | panic m => rfl
    | abort m => rfl
    | err e =>
      cases ca
      · rfl
      · simp only [List.cons_append, processResults, if_true, ih]
    | ok v =>
      obtain ⟨o, g⟩ := v
      cases o with
      | parent s m => simp only [List.cons_append, processResults, ih]
      | data m => simp only [List.cons_append, processResults, ih]
      | satisfied b =>
        cases b <;> simp only [List.cons_append, processResults, ih]

/-- extending the done set by a node whose result hands nothing on, with untouched caches -/
theorem inv_extend_none (p : Predicate) (D : List Nat) (R) (c0 : Cache) (acc acc' : LevelAcc) (A : List Nat) (v : Nat)
    (h : CacheInv p D R c0 acc A) (hv : v ∉ A) (h0 : c0.get v = none) (hn : parentOut (R v) = none)
    (e1 : acc'.cache = acc.cache) (e2 : acc'.local_ = acc.local_) : CacheInv p D R c0 acc' (A ++ [v]) := by
  constructor
  · intro u
    rw [e1, h.1 u]
    by_cases huv : u = v
    · subst huv
      have : A.contains u = false := by simp [hv]
      simp only [this, Bool.false_and, Bool.false_eq_true, if_false, h0, hn]
      split <;> rfl
    · have : (A ++ [v]).contains u = A.contains u := by simp [huv]
      rw [this]
  · intro u
    rw [e2, h.2 u]
    by_cases huv : u = v
    · subst huv
      have : A.contains u = false := by simp [hv]
      simp only [this, Bool.false_and, Bool.false_eq_true, if_false, hn]
      split <;> rfl
    · have : (A ++ [v]).contains u = A.contains u := by simp [huv]
      rw [this]

/-- extending the done set by a node that hands on `(s, m)`, stored where `should_cache` says -/
theorem inv_extend_parent (p : Predicate) (D : List Nat) (R) (c0 : Cache) (acc : LevelAcc) (A : List Nat) (v : Nat)
    (s : Stack) (m : Memory) (g : Nat)
    (h : CacheInv p D R c0 acc A) (hv : v ∉ A) (h0 : c0.get v = none) (hr : R v = .ok (.parent s m, g)) (acc' : LevelAcc)
    (e : (acc'.cache, acc'.local_) = if shouldCache p D v then (acc.cache.insert v (s, m), acc.local_) else (acc.cache, acc.local_.insert v (s, m))) :
    CacheInv p D R c0 acc' (A ++ [v]) := by
  have hpo : parentOut (R v) = some (s, m) := by rw [hr]; rfl
  have hAv : A.contains v = false := by simp [hv]
  have hAv' : (A ++ [v]).contains v = true := by simp
  by_cases hs : shouldCache p D v = true
  · simp only [hs, if_true, Prod.mk.injEq] at e
    constructor
    · intro u
      rw [e.1]
      by_cases huv : u = v
      · subst huv
        rw [get_insert_self]
        simp only [hAv', hs, Bool.and_true, if_true, hpo]
      · rw [get_insert_other _ _ _ _ huv, h.1 u]
        have : (A ++ [v]).contains u = A.contains u := by simp [huv]
        rw [this]
    · intro u
      rw [e.2, h.2 u]
      by_cases huv : u = v
      · subst huv
        simp only [hAv, hAv', hs, Bool.not_true, Bool.and_false, Bool.false_and, Bool.false_eq_true, if_false]
      · have : (A ++ [v]).contains u = A.contains u := by simp [huv]
        rw [this]
  · have hs' : shouldCache p D v = false := by simpa using hs
    simp only [hs', Bool.false_eq_true, if_false, Prod.mk.injEq] at e
    constructor
    · intro u
      rw [e.1, h.1 u]
      by_cases huv : u = v
      · subst huv
        simp only [hAv, hAv', hs', Bool.and_false, Bool.false_and, Bool.false_eq_true, if_false]
      · have : (A ++ [v]).contains u = A.contains u := by simp [huv]
        rw [this]
    · intro u
      rw [e.2]
      by_cases huv : u = v
      · subst huv
        rw [get_insert_self]
        simp only [hAv', hs', Bool.not_false, Bool.and_true, if_true, hpo]
      · rw [get_insert_other _ _ _ _ huv, h.2 u]
        have : (A ++ [v]).contains u = A.contains u := by simp [huv]
        rw [this]

/-- processing the reference results of fresh nodes keeps the caches in step with the reference -/
theorem process_inv (p : Predicate) (D : List Nat) (ca : Bool) (R) (c0 : Cache) :
    ∀ (l : List Nat) (acc : LevelAcc) (A : List Nat), CacheInv p D R c0 acc A →
      (∀ v ∈ l, v ∉ A ∧ c0.get v = none) → l.Nodup →
      ∀ acc', processResults p D ca (l.map fun v => (v, R v)) acc = .ok (acc', false) → CacheInv p D R c0 acc' (A ++ l) := by
  intro l
  induction l with
  | nil =>
    intro acc A h _ _ acc' he
    simp only [List.map_nil, processResults, Res.ok.injEq, Prod.mk.injEq, and_true] at he
    subst he; simpa using h
  | cons v vs ih =>
    intro acc A h hf hn acc' he
    simp only [List.nodup_cons] at hn
    have hv := hf v (by simp)
    have hrest : ∀ (acc1 : LevelAcc), CacheInv p D R c0 acc1 (A ++ [v]) →
        processResults p D ca (vs.map fun v => (v, R v)) acc1 = .ok (acc', false) → CacheInv p D R c0 acc' (A ++ v :: vs) := by
      intro acc1 h1 he1
      have := ih acc1 (A ++ [v]) h1 (fun x hx => ⟨fun hm => by
          rcases List.mem_append.mp hm with h' | h'
          · exact (hf x (by simp [hx])).1 h'
          · exact hn.1 (List.mem_singleton.mp h' ▸ hx), (hf x (by simp [hx])).2⟩) hn.2 acc' he1
      simpa [List.append_assoc] using this
    simp only [List.map_cons] at he
    cases hr : R v with
    | panic m => rw [hr] at he; simp [processResults] at he
    | abort m => rw [hr] at he; simp [processResults] at he
    | err e =>
      rw [hr] at he
      cases ca
      · simp [processResults] at he
      · simp only [processResults, if_true] at he
        refine hrest _ ?_ he
        exact inv_extend_none p D R c0 acc _ A v h hv.1 hv.2 (by rw [hr]; rfl) rfl rfl
    | ok val =>
      obtain ⟨o, g⟩ := val
      rw [hr] at he
      cases o with
      | parent s m =>
        simp only [processResults] at he
        refine hrest _ (inv_extend_parent p D R c0 acc A v s m g h hv.1 hv.2 hr _ ?_) he
        by_cases hs : shouldCache p D v = true <;> simp [hs]
      | data m =>
        simp only [processResults] at he
        refine hrest _ ?_ he
        exact inv_extend_none p D R c0 acc _ A v h hv.1 hv.2 (by rw [hr]; rfl) rfl rfl
      | satisfied b =>
        cases b
        · simp only [processResults] at he
          refine hrest _ ?_ he
          exact inv_extend_none p D R c0 acc _ A v h hv.1 hv.2 (by rw [hr]; rfl) rfl rfl
        · simp only [processResults] at he
          refine hrest _ ?_ he
          exact inv_extend_none p D R c0 acc _ A v h hv.1 hv.2 (by rw [hr]; rfl) rfl rfl

/-! ### a pass is the processing of its nodes' reference results -/

/-- **running a pass level by level = processing the reference results of its nodes in level
order**: every node gets exactly its reference inputs (parents' outputs, ascending, with
multiplicity), whichever of the two caches they sit in -/
theorem runLevels_eq_process (p : Predicate) (D : List Nat) (ca : Bool)
    (run : Nat → List (Stack × Memory) → Res String (NodeOut × Nat)) (R) (c0 : Cache) :
    ∀ (ls : List (List Nat)) (acc : LevelAcc) (A : List Nat), CacheInv p D R c0 acc A → (∀ u ∈ A, c0.get u = none) →
      PassPlan p R c0 A ls → (∀ v ∈ ls.flatten, R v = run v (refInputs p R v)) →
      runLevels p D ca run ls acc = processResults p D ca (ls.flatten.map fun v => (v, R v)) acc ∧
      ∀ acc', processResults p D ca (ls.flatten.map fun v => (v, R v)) acc = .ok (acc', false) → CacheInv p D R c0 acc' (A ++ ls.flatten) := by
  intro ls
  induction ls with
  | nil =>
    intro acc A h _ _ _
    refine ⟨rfl, ?_⟩
    intro acc' he
    simp only [List.flatten_nil, List.map_nil, processResults, Res.ok.injEq, Prod.mk.injEq, and_true] at he
    subst he; simpa using h
  | cons lv rest ih =>
    intro acc A h hc hp hR
    obtain ⟨h1, h2, h3⟩ := hp
    have hres : (lv.map fun node => (node, run node (nodeInputs p acc node))) = lv.map fun v => (v, R v) := by
      apply List.map_congr_left
      intro v hv
      rw [nodeInputs_ref p D R c0 acc A h hc v (h1 v hv).2.2, ← hR v (by simp [hv])]
    have hc' : ∀ u ∈ A ++ lv, c0.get u = none := by
      intro u hu
      rcases List.mem_append.mp hu with h' | h'
      · exact hc u h'
      · exact (h1 u h').2.1
    have hinv := process_inv p D ca R c0 lv acc A h (fun v hv => ⟨(h1 v hv).1, (h1 v hv).2.1⟩) h2
    simp only [runLevels, hres, List.flatten_cons, List.map_append]
    rw [process_append]
    cases hpr : processResults p D ca (lv.map fun v => (v, R v)) acc with
    | ok val =>
      obtain ⟨acc1, stop⟩ := val
      cases stop
      · simp only []
        have := ih acc1 (A ++ lv) (hinv acc1 hpr) hc' h3 (fun v hv => hR v (by simp [hv]))
        refine ⟨this.1, ?_⟩
        intro acc' he
        have := this.2 acc' he
        simpa [List.append_assoc] using this
      · exact ⟨rfl, fun acc' he => by cases he⟩
    | err e => exact ⟨rfl, fun acc' he => by cases he⟩
    | panic m => exact ⟨rfl, fun acc' he => by cases he⟩
    | abort m => exact ⟨rfl, fun acc' he => by cases he⟩

end Essential.Refine
